(* IndexProofs.v -- property C12: reference counts, sizes and statistics of the index
   state (theories/Index.v) are exact.

   Main statements (Section Index, for any key order [cmp] satisfying the four order
   hypotheses):
     C12_empty, C12_apply_ok, C12_unreferenced, C12_counts_exact,
     C12_incremental_eq_recomputed, C12_km_spec, C12_apply (all of the above at once),
     C12_ub_is_rc_length / C12_tb_is_rc_sum (statistics in terms of the rc map),
     C12_load, C12_load_sorted, and the closed example C12_example.

   Proof organisation.  The hard part is that [apply_put]/[apply_remove] pass through
   intermediate states in which km is already updated but rc and the statistics are not.
   So rc and the statistics are specified against an *abstract* count function
   [cnt : bytes -> N] and a global size oracle [sizeof : bytes -> N]:
     RcRep r cnt        : r is lex-sorted and r(h) = cnt h (absent iff cnt h = 0)
     StRep u t f        : u, t are the length and value sum of THE lex-sorted map with
                          lookup function f (unique by sm_ext)
     Rep sizeof s cnt   : RcRep (rc s) cnt /\ StRep (ub s) (tb s) (h |-> sizeof h if cnt h > 0)
   [do_inc]/[do_dec] transform Rep by cnt[h +/- 1]; at the end cnt is shown extensionally
   equal to [count_refs] of the new key map. *)
From Cas Require Import Base Codec SMap Index.
From CasProofs Require Import SMapProofs.
From Coq Require Import List NArith Lia Bool.
Import ListNotations.
Open Scope N_scope.

Arguments N.add : simpl never.
Arguments N.sub : simpl never.
Arguments N.mul : simpl never.
Arguments N.eqb : simpl never.
Arguments N.ltb : simpl never.
Arguments N.leb : simpl never.

(* ------------------------------------------------------------------------------------ *)
(* Definitions that do not depend on the key order *)

Definition b01 (b : bool) : N := if b then 1 else 0.

(* number of entries of m whose hash is h *)
Fixpoint count_refs (m : smap item) (h : bytes) : N :=
  match m with
  | [] => 0
  | (_, i) :: r => b01 (beqb (ihash i) h) + count_refs r h
  end.

(* one hash, one size *)
Definition hashes_sized (m : smap item) : Prop :=
  forall k1 k2 i1 i2, In (k1, i1) m -> In (k2, i2) m -> ihash i1 = ihash i2 -> isize i1 = isize i2.

(* all sizes in m are given by the oracle *)
Definition sized_by (sizeof : bytes -> N) (m : smap item) : Prop :=
  forall k i, In (k, i) m -> isize i = sizeof (ihash i).

(* size of the first entry with hash h *)
Fixpoint fsz (m : smap item) (h : bytes) : option N :=
  match m with
  | [] => None
  | (_, i) :: r => if beqb (ihash i) h then Some (isize i) else fsz r h
  end.

Definition usum (U : smap N) : N := fold_right (fun e a => snd e + a) 0 U.

Definition op_respects_sizes (s : istate) (o : rawop) : Prop :=
  match o with
  | RPut k h sz => forall k' i, In (k', i) (km s) -> ihash i = h -> isize i = sz
  | RRemove _ => True
  end.

(* ---- lex instances at the types used here ---- *)
Local Notation LX L := (L lex_cmp lex_refl lex_eq lex_antisym lex_trans) (only parsing).

(* ---- count_refs ---- *)
Lemma count_total m h :
  count_refs m h = total (fun e : bytes * item => b01 (beqb (ihash (snd e)) h)) m.
Proof.
  induction m as [|[k i] r IH]; [reflexivity|].
  cbn [count_refs]. rewrite IH. reflexivity.
Qed.

Lemma count_pos_in m k i : In (k, i) m -> 0 < count_refs m (ihash i).
Proof.
  induction m as [|[k1 i1] r IH]; intros H; [destruct H|].
  cbn [count_refs]. destruct H as [H|H].
  - inversion H; subst. rewrite beqb_refl. cbn [b01]. lia.
  - specialize (IH H). lia.
Qed.

Lemma count_pos_ex m h : 0 < count_refs m h -> exists k i, In (k, i) m /\ ihash i = h.
Proof.
  induction m as [|[k1 i1] r IH]; cbn [count_refs]; intros H; [lia|].
  destruct (beqb (ihash i1) h) eqn:E.
  - apply beqb_true_iff in E. exists k1, i1. split; [left; reflexivity|exact E].
  - cbn [b01] in H. destruct IH as (k & i & I & Hh); [lia|].
    exists k, i. split; [right; exact I|exact Hh].
Qed.

(* ---- fsz ---- *)
Lemma fsz_sized sizeof m h :
  sized_by sizeof m -> fsz m h = if count_refs m h =? 0 then None else Some (sizeof h).
Proof.
  induction m as [|[k i] r IH]; intros S; [reflexivity|].
  cbn [fsz count_refs].
  assert (Sr : sized_by sizeof r) by (intros a b I; apply (S a b); right; exact I).
  destruct (beqb (ihash i) h) eqn:E; cbn [b01].
  - apply beqb_true_iff in E. subst h.
    rewrite (S k i) by (left; reflexivity).
    destruct (N.eqb_spec (1 + count_refs r (ihash i)) 0); [lia|reflexivity].
  - rewrite N.add_0_l. apply IH, Sr.
Qed.

Lemma fsz_some m h z : fsz m h = Some z -> exists k i, In (k, i) m /\ ihash i = h /\ isize i = z.
Proof.
  induction m as [|[k1 i1] r IH]; cbn [fsz]; intros H; [discriminate|].
  destruct (beqb (ihash i1) h) eqn:E.
  - apply beqb_true_iff in E. inversion H; subst. exists k1, i1. repeat split. left; reflexivity.
  - destruct (IH H) as (k & i & I & R). exists k, i. split; [right; exact I|exact R].
Qed.

Lemma fsz_in m k i : In (k, i) m -> exists z, fsz m (ihash i) = Some z.
Proof.
  induction m as [|[k1 i1] r IH]; intros H; [destruct H|].
  cbn [fsz]. destruct (beqb (ihash i1) (ihash i)) eqn:E; [eexists; reflexivity|].
  destruct H as [H|H]; [|apply IH, H].
  inversion H; subst. rewrite beqb_refl in E. discriminate.
Qed.

Lemma hashes_sized_oracle m : hashes_sized m -> exists sizeof, sized_by sizeof m.
Proof.
  intros HS. exists (fun h => match fsz m h with Some z => z | None => 0 end).
  intros k i I. destruct (fsz_in _ _ _ I) as [z Hz]. rewrite Hz.
  destruct (fsz_some _ _ _ Hz) as (k' & i' & I' & Hh & Hs).
  rewrite <- Hs. apply (HS k k' i i' I I'). symmetry; exact Hh.
Qed.

Lemma sized_by_hashes_sized sizeof m : sized_by sizeof m -> hashes_sized m.
Proof.
  intros S k1 k2 i1 i2 I1 I2 E. rewrite (S _ _ I1), (S _ _ I2), E. reflexivity.
Qed.

(* ---- uniq_sizes computes the lex-sorted map with lookup function fsz ---- *)
Lemma uniq_sizes_spec m : forall seen, sorted lex_cmp seen ->
  sorted lex_cmp (uniq_sizes m seen) /\
  forall h, sm_get lex_cmp (uniq_sizes m seen) h =
            match sm_get lex_cmp seen h with Some z => Some z | None => fsz m h end.
Proof.
  induction m as [|[k i] r IH]; intros seen S; cbn [uniq_sizes fsz].
  - split; [exact S|]. intros h. destruct (sm_get lex_cmp seen h); reflexivity.
  - destruct (sm_get lex_cmp seen (ihash i)) as [z0|] eqn:G.
    + destruct (IH seen S) as [S' Hg]. split; [exact S'|].
      intros h. rewrite Hg. destruct (sm_get lex_cmp seen h) eqn:G'; [reflexivity|].
      destruct (beqb (ihash i) h) eqn:E; [|reflexivity].
      apply beqb_true_iff in E. subst h. congruence.
    + destruct (IH _ (lex_sorted_ins seen (ihash i) (isize i) S)) as [S' Hg].
      split; [exact S'|].
      intros h. rewrite Hg.
      destruct (beqb (ihash i) h) eqn:E.
      * apply beqb_true_iff in E. subst h. rewrite lex_get_ins_same, G. reflexivity.
      * apply beqb_false_iff in E.
        rewrite lex_get_ins_other by (auto; congruence). reflexivity.
Qed.

Lemma uniq_sizes_sorted m : sorted lex_cmp (uniq_sizes m []).
Proof. apply (uniq_sizes_spec m []). exact I. Qed.

Lemma uniq_sizes_get m h : sm_get lex_cmp (uniq_sizes m []) h = fsz m h.
Proof. apply (proj2 (uniq_sizes_spec m [] I) h). Qed.

(* ---- abstract representation of rc and of the statistics ---- *)
Definition RcRep (r : smap N) (cnt : bytes -> N) : Prop :=
  sorted lex_cmp r /\ forall h, rc_get r h = if cnt h =? 0 then None else Some (cnt h).

Definition StRep (u t : N) (f : bytes -> option N) : Prop :=
  exists U : smap N, sorted lex_cmp U /\ (forall h, sm_get lex_cmp U h = f h) /\
                     u = N.of_nat (length U) /\ t = usum U.

Definition fof (sizeof cnt : bytes -> N) : bytes -> option N :=
  fun h => if cnt h =? 0 then None else Some (sizeof h).

Definition Rep (sizeof : bytes -> N) (s : istate) (cnt : bytes -> N) : Prop :=
  RcRep (rc s) cnt /\ StRep (ub s) (tb s) (fof sizeof cnt).

Lemma RcRep_ext r cnt cnt' : (forall h, cnt h = cnt' h) -> RcRep r cnt -> RcRep r cnt'.
Proof. intros E [S H]. split; [exact S|]. intros h. rewrite <- E. apply H. Qed.

Lemma StRep_ext u t f f' : (forall h, f h = f' h) -> StRep u t f -> StRep u t f'.
Proof.
  intros E (U & S & G & Hu & Ht). exists U. repeat split; try assumption.
  intros h. rewrite <- E. apply G.
Qed.

Lemma Rep_ext sizeof s cnt cnt' : (forall h, cnt h = cnt' h) -> Rep sizeof s cnt -> Rep sizeof s cnt'.
Proof.
  intros E [R T]. split; [eapply RcRep_ext; eassumption|].
  eapply StRep_ext; [|exact T]. intros h. unfold fof. rewrite E. reflexivity.
Qed.

(* ---- inc_ref / dec_ref ---- *)
Lemma inc_ref_rep r cnt h : RcRep r cnt ->
  inc_ref r h = (sm_ins lex_cmp r h (cnt h + 1), cnt h =? 0) /\
  RcRep (sm_ins lex_cmp r h (cnt h + 1)) (fun x => cnt x + b01 (beqb h x)).
Proof.
  intros [S H]. split.
  - unfold inc_ref. rewrite (H h). destruct (cnt h =? 0) eqn:E.
    + apply N.eqb_eq in E. rewrite E. reflexivity.
    + rewrite E. reflexivity.
  - split; [apply lex_sorted_ins, S|].
    intros x. unfold rc_get. destruct (beqb h x) eqn:E; cbn [b01].
    + apply beqb_true_iff in E. subst x. rewrite lex_get_ins_same.
      destruct (N.eqb_spec (cnt h + 1) 0); [lia|reflexivity].
    + apply beqb_false_iff in E. rewrite lex_get_ins_other by (auto; congruence).
      rewrite N.add_0_r. apply H.
Qed.

Lemma dec_ref_rep r cnt h : RcRep r cnt -> 0 < cnt h ->
  exists r', dec_ref r h = Ok (r', cnt h =? 1) /\
             RcRep r' (fun x => cnt x - b01 (beqb h x)).
Proof.
  intros [S H] P. unfold dec_ref. rewrite (H h).
  destruct (N.eqb_spec (cnt h) 0) as [E0|E0]; [lia|].
  destruct (N.eqb_spec (cnt h) 0) as [E0'|_]; [lia|].
  destruct (N.eqb_spec (cnt h) 1) as [E1|E1]; eexists; (split; [reflexivity|]).
  - split; [apply lex_sorted_del, S|].
    intros x. unfold rc_get. destruct (beqb h x) eqn:E; cbn [b01].
    + apply beqb_true_iff in E. subst x. rewrite lex_get_del_same by exact S.
      destruct (N.eqb_spec (cnt h - 1) 0); [reflexivity|lia].
    + apply beqb_false_iff in E. rewrite lex_get_del_other by (auto; congruence).
      rewrite N.sub_0_r. apply H.
  - split; [apply lex_sorted_ins, S|].
    intros x. unfold rc_get. destruct (beqb h x) eqn:E; cbn [b01].
    + apply beqb_true_iff in E. subst x. rewrite lex_get_ins_same.
      destruct (N.eqb_spec (cnt h - 1) 0); [lia|reflexivity].
    + apply beqb_false_iff in E. rewrite lex_get_ins_other by (auto; congruence).
      rewrite N.sub_0_r. apply H.
Qed.

(* ---- statistics: adding / removing one hash ---- *)
Lemma StRep_add u t sizeof cnt h :
  StRep u t (fof sizeof cnt) -> cnt h = 0 ->
  StRep (u + 1) (t + sizeof h) (fof sizeof (fun x => cnt x + b01 (beqb h x))).
Proof.
  intros (U & S & G & Hu & Ht) Z.
  assert (GN : sm_get lex_cmp U h = None).
  { rewrite G. unfold fof. rewrite Z. reflexivity. }
  exists (sm_ins lex_cmp U h (sizeof h)). repeat split.
  - apply lex_sorted_ins, S.
  - intros x. unfold fof. destruct (beqb h x) eqn:E; cbn [b01].
    + apply beqb_true_iff in E. subst x. rewrite lex_get_ins_same.
      destruct (N.eqb_spec (cnt h + 1) 0); [lia|reflexivity].
    + apply beqb_false_iff in E. rewrite lex_get_ins_other by (auto; congruence).
      rewrite N.add_0_r. apply G.
  - rewrite (LX length_ins_none _ _ _ GN). lia.
  - unfold usum. pose proof (LX total_ins_none (@snd bytes N) _ _ (sizeof h) GN) as T.
    unfold total in T. rewrite T. cbn [snd]. unfold usum in Ht. lia.
Qed.

Lemma StRep_same u t sizeof cnt cnt' :
  StRep u t (fof sizeof cnt) -> (forall x, (cnt x =? 0) = (cnt' x =? 0)) ->
  StRep u t (fof sizeof cnt').
Proof.
  intros T E. eapply StRep_ext; [|exact T]. intros x. unfold fof. rewrite E. reflexivity.
Qed.

Lemma StRep_sub u t sizeof cnt h :
  StRep u t (fof sizeof cnt) -> cnt h = 1 ->
  u <> 0 /\ sizeof h <= t /\
  StRep (u - 1) (t - sizeof h) (fof sizeof (fun x => cnt x - b01 (beqb h x))).
Proof.
  intros (U & S & G & Hu & Ht) Z.
  assert (GS : sm_get lex_cmp U h = Some (sizeof h)).
  { rewrite G. unfold fof. rewrite Z. reflexivity. }
  pose proof (LX length_del_some _ _ _ GS) as L.
  pose proof (LX total_del_some (@snd bytes N) _ _ _ GS) as T.
  unfold total in T. cbn [snd] in T. unfold usum in Ht.
  split; [lia|]. split; [lia|].
  exists (sm_del lex_cmp U h). repeat split.
  - apply lex_sorted_del, S.
  - intros x. unfold fof. destruct (beqb h x) eqn:E; cbn [b01].
    + apply beqb_true_iff in E. subst x. rewrite lex_get_del_same by exact S.
      destruct (N.eqb_spec (cnt h - 1) 0); [reflexivity|lia].
    + apply beqb_false_iff in E. rewrite lex_get_del_other by (auto; congruence).
      rewrite N.sub_0_r. apply G.
  - lia.
  - unfold usum. lia.
Qed.

(* ---- do_inc / do_dec ---- *)
Lemma do_inc_rep sizeof s cnt h sz :
  Rep sizeof s cnt -> sz = sizeof h ->
  Rep sizeof (do_inc s h sz) (fun x => cnt x + b01 (beqb h x)) /\
  km (do_inc s h sz) = km s /\ lpv (do_inc s h sz) = lpv s /\ ssz (do_inc s h sz) = ssz s.
Proof.
  intros [R T] ->. destruct (inc_ref_rep _ _ h R) as [E R'].
  unfold do_inc. rewrite E.
  destruct (N.eqb_spec (cnt h) 0) as [Z|Z]; cbn [add_stats set_rc rc ub tb km lpv ssz].
  - split; [|repeat split; reflexivity]. split; cbn [rc ub tb]; [exact R'|].
    apply StRep_add; assumption.
  - split; [|repeat split; reflexivity]. split; cbn [rc ub tb]; [exact R'|].
    eapply StRep_same; [exact T|]. intros x. cbn beta.
    destruct (beqb h x) eqn:B; cbn [b01]; [|rewrite N.add_0_r; reflexivity].
    apply beqb_true_iff in B. subst x.
    destruct (N.eqb_spec (cnt h) 0); [lia|]. destruct (N.eqb_spec (cnt h + 1) 0); [lia|reflexivity].
Qed.

Lemma do_dec_rep sizeof s cnt h sz acc :
  Rep sizeof s cnt -> 0 < cnt h -> sz = sizeof h ->
  exists s', do_dec s h sz acc = Ok (s', if cnt h =? 1 then acc ++ [h] else acc) /\
             Rep sizeof s' (fun x => cnt x - b01 (beqb h x)) /\
             km s' = km s /\ lpv s' = lpv s /\ ssz s' = ssz s.
Proof.
  intros [R T] P ->. destruct (dec_ref_rep _ _ h R P) as (r' & E & R').
  unfold do_dec. rewrite E. cbn [rbind].
  destruct (N.eqb_spec (cnt h) 1) as [Z|Z].
  - destruct (StRep_sub _ _ _ _ _ T Z) as (U0 & T0 & T').
    unfold sub_stats. cbn [set_rc ub tb km rc lpv ssz].
    destruct (N.eqb_spec (ub s) 0) as [?|_]; [contradiction|].
    destruct (N.ltb_spec (tb s) (sizeof h)) as [?|_]; [lia|].
    cbn [orb rbind]. eexists. split; [reflexivity|].
    split; [|repeat split; reflexivity]. split; cbn [rc ub tb]; assumption.
  - eexists. split; [reflexivity|]. cbn [set_rc rc ub tb km lpv ssz].
    split; [|repeat split; reflexivity]. split; cbn [rc ub tb]; [exact R'|].
    eapply StRep_same; [exact T|]. intros x. cbn beta.
    destruct (beqb h x) eqn:B; cbn [b01]; [|rewrite N.sub_0_r; reflexivity].
    apply beqb_true_iff in B. subst x.
    destruct (N.eqb_spec (cnt h) 0); [lia|]. destruct (N.eqb_spec (cnt h - 1) 0); [lia|reflexivity].
Qed.

(* km is untouched by do_inc / do_dec, unconditionally *)
Lemma do_inc_km s h sz : km (do_inc s h sz) = km s /\ lpv (do_inc s h sz) = lpv s.
Proof.
  unfold do_inc. destruct (inc_ref (rc s) h) as [r b]. destruct b; split; reflexivity.
Qed.

Lemma do_dec_km s h sz acc s' acc' :
  do_dec s h sz acc = Ok (s', acc') -> km s' = km s /\ lpv s' = lpv s.
Proof.
  unfold do_dec. destruct (dec_ref (rc s) h) as [[r b]|e]; cbn [rbind]; [|discriminate].
  destruct b.
  - unfold sub_stats. destruct (_ || _); cbn [rbind]; [discriminate|].
    intros H; inversion H; subst. split; reflexivity.
  - intros H; inversion H; subst. split; reflexivity.
Qed.

(* ------------------------------------------------------------------------------------ *)
Section Index.
  Variable cmp : bytes -> bytes -> comparison.
  Hypothesis cmp_refl : forall a, cmp a a = Eq.
  Hypothesis cmp_eq : forall a b, cmp a b = Eq -> a = b.
  Hypothesis cmp_antisym : forall a b, cmp b a = CompOpp (cmp a b).
  Hypothesis cmp_trans : forall a b c, cmp a b = Lt -> cmp b c = Lt -> cmp a c = Lt.

  Local Notation KX L := (L cmp cmp_refl cmp_eq cmp_antisym cmp_trans) (only parsing).

  Definition IdxInv (s : istate) : Prop :=
    sorted cmp (km s) /\
    sorted lex_cmp (rc s) /\
    (forall h, rc_get (rc s) h =
               if count_refs (km s) h =? 0 then None else Some (count_refs (km s) h)) /\
    hashes_sized (km s) /\
    ub s = N.of_nat (length (uniq_sizes (km s) [])) /\
    tb s = usum (uniq_sizes (km s) []).

  (* ---- IdxInv <-> Rep ---- *)
  Lemma inv_to_rep sizeof s :
    IdxInv s -> sized_by sizeof (km s) -> Rep sizeof s (count_refs (km s)).
  Proof using.
    intros (Sk & Sr & Hr & Hs & Hu & Ht) SB. split; [split; assumption|].
    exists (uniq_sizes (km s) []). repeat split; try assumption.
    - apply uniq_sizes_sorted.
    - intros h. rewrite uniq_sizes_get. apply fsz_sized, SB.
  Qed.

  Lemma rep_to_inv sizeof s :
    sorted cmp (km s) -> sized_by sizeof (km s) -> Rep sizeof s (count_refs (km s)) -> IdxInv s.
  Proof using.
    intros Sk SB [[Sr Hr] (U & SU & GU & Hu & Ht)].
    assert (U = uniq_sizes (km s) []).
    { apply lex_sm_ext; [exact SU|apply uniq_sizes_sorted|].
      intros h. rewrite GU, uniq_sizes_get. symmetry. apply fsz_sized, SB. }
    subst U. repeat split; try assumption.
    eapply sized_by_hashes_sized, SB.
  Qed.

  (* ---- counts under insert / delete of the key map ---- *)
  Lemma count_ins_none m k v x :
    sm_get cmp m k = None ->
    count_refs (sm_ins cmp m k v) x = b01 (beqb (ihash v) x) + count_refs m x.
  Proof using cmp_refl cmp_eq cmp_antisym cmp_trans.
    intros G. rewrite !count_total.
    rewrite (KX total_ins_none _ _ _ v G). reflexivity.
  Qed.

  Lemma count_ins_some m k v p x :
    sm_get cmp m k = Some p ->
    count_refs (sm_ins cmp m k v) x + b01 (beqb (ihash p) x) =
    b01 (beqb (ihash v) x) + count_refs m x.
  Proof using cmp_refl cmp_eq cmp_antisym cmp_trans.
    intros G. rewrite !count_total.
    pose proof (KX total_ins_some (fun e : bytes * item => b01 (beqb (ihash (snd e)) x))
                   _ _ v _ G) as T.
    cbn [snd] in T. exact T.
  Qed.

  Lemma count_del_some m k p x :
    sm_get cmp m k = Some p ->
    count_refs (sm_del cmp m k) x + b01 (beqb (ihash p) x) = count_refs m x.
  Proof using cmp_refl cmp_eq cmp_antisym cmp_trans.
    intros G. rewrite !count_total.
    pose proof (KX total_del_some (fun e : bytes * item => b01 (beqb (ihash (snd e)) x))
                   _ _ _ G) as T.
    cbn [snd] in T. exact T.
  Qed.

  Lemma count_del_le m k x : count_refs (sm_del cmp m k) x <= count_refs m x.
  Proof using cmp_refl cmp_eq cmp_antisym cmp_trans.
    destruct (sm_get cmp m k) as [p|] eqn:G.
    - pose proof (count_del_some _ _ _ x G). lia.
    - rewrite (KX del_absent _ _ G). lia.
  Qed.

  (* ---- C12_empty ---- *)
  Theorem C12_empty : IdxInv empty_istate.
  Proof using.
    unfold IdxInv, empty_istate; cbn. repeat split; auto.
    intros k1 k2 i1 i2 [].
  Qed.

  (* ---- apply_put ---- *)
  Lemma apply_put_ok s k h sz :
    IdxInv s ->
    (forall k' i, In (k', i) (km s) -> ihash i = h -> isize i = sz) ->
    exists s' un,
      apply_put cmp s k h sz = Ok (s', un) /\ IdxInv s' /\
      km s' = sm_ins cmp (km s) k (mkItem h sz) /\ lpv s' = lpv s /\
      NoDup un /\
      (forall x, In x un <-> 0 < count_refs (km s) x /\ count_refs (km s') x = 0).
  Proof using cmp_refl cmp_eq cmp_antisym cmp_trans.
    intros Inv Hsz.
    pose proof Inv as (Sk & Sr & Hr & Hs & Hu & Ht).
    destruct (hashes_sized_oracle _ Hs) as [sizeof0 SB0].
    set (sizeof := fun x => if beqb x h then sz else sizeof0 x).
    set (m' := sm_ins cmp (km s) k (mkItem h sz)).
    assert (SB : sized_by sizeof (km s)).
    { intros a i I. unfold sizeof. destruct (beqb (ihash i) h) eqn:E.
      - apply beqb_true_iff in E. eapply Hsz; eassumption.
      - apply SB0 in I. exact I. }
    assert (SB' : sized_by sizeof m').
    { intros a i I. apply (KX In_ins) in I. destruct I as [I|I].
      - inversion I; subst. cbn [ihash isize]. unfold sizeof. rewrite beqb_refl. reflexivity.
      - eapply SB, I. }
    assert (Sk' : sorted cmp m') by (apply (KX sorted_ins), Sk).
    assert (Hh : sizeof h = sz) by (unfold sizeof; rewrite beqb_refl; reflexivity).
    pose proof (inv_to_rep sizeof s Inv SB) as R0.
    unfold apply_put. fold m'.
    destruct (sm_get cmp (km s) k) as [p|] eqn:G.
    - assert (Ip : In (k, p) (km s)) by (apply (KX get_in _ _ _ Sk), G).
      assert (HC : forall x, count_refs m' x + b01 (beqb (ihash p) x) =
                             b01 (beqb h x) + count_refs (km s) x).
      { intros x. apply (count_ins_some _ _ (mkItem h sz) _ x G). }
      destruct (beqb (ihash p) h) eqn:B.
      + (* same hash: the size must agree, nothing else changes *)
        apply beqb_true_iff in B.
        rewrite (Hsz _ _ Ip B), N.eqb_refl.
        exists (set_km s m'), []. split; [reflexivity|].
        assert (HE : forall x, count_refs (km s) x = count_refs m' x).
        { intros x. specialize (HC x). rewrite B in HC. lia. }
        split; [|split; [reflexivity|split; [reflexivity|split; [constructor|]]]].
        * apply (rep_to_inv sizeof); cbn [set_km km]; try assumption.
          eapply Rep_ext; [exact HE|exact R0].
        * intros x. cbn [set_km km]. rewrite (HE x). split; [intros []|lia].
      + (* different hash: release the old one, take the new one *)
        apply beqb_false_iff in B.
        assert (P : 0 < count_refs (km s) (ihash p)) by (eapply count_pos_in, Ip).
        destruct (do_dec_rep sizeof (set_km s m') (count_refs (km s)) (ihash p) (isize p) []
                             R0 P (SB _ _ Ip))
          as (s1 & E1 & R1 & K1 & L1 & Z1).
        rewrite E1. cbn [rbind].
        destruct (do_inc_rep sizeof s1 _ h sz R1 (eq_sym Hh)) as (R2 & K2 & L2 & Z2).
        eexists _, _. split; [reflexivity|].
        cbn [set_km km lpv] in K1, L1.
        assert (HE : forall x, count_refs (km s) x - b01 (beqb (ihash p) x) + b01 (beqb h x) =
                               count_refs m' x).
        { intros x. specialize (HC x).
          destruct (beqb (ihash p) x) eqn:B1; cbn [b01] in *; [|lia].
          apply beqb_true_iff in B1. subst x. lia. }
        split; [|split; [congruence|split; [congruence|split]]].
        * apply (rep_to_inv sizeof); rewrite ?K2, ?K1; try assumption.
          eapply Rep_ext; [exact HE|exact R2].
        * destruct (count_refs (km s) (ihash p) =? 1); cbn [app]; repeat constructor.
          intros [].
        * intros x. rewrite K2, K1. specialize (HC x).
          destruct (N.eqb_spec (count_refs (km s) (ihash p)) 1) as [C|C]; cbn [app In].
          -- split.
             ++ intros [<-|[]]. rewrite beqb_refl in HC.
                destruct (beqb h (ihash p)) eqn:B2;
                  [apply beqb_true_iff in B2; congruence|]. cbn [b01] in HC. lia.
             ++ intros [P1 P2]. left.
                destruct (beqb (ihash p) x) eqn:B1; [apply beqb_true_iff in B1; exact B1|].
                cbn [b01] in HC. destruct (beqb h x); cbn [b01] in HC; lia.
          -- split; [intros []|]. intros [P1 P2]. exfalso.
             destruct (beqb (ihash p) x) eqn:B1.
             ++ apply beqb_true_iff in B1. subst x.
                destruct (beqb h (ihash p)); cbn [b01] in HC; lia.
             ++ cbn [b01] in HC. destruct (beqb h x); cbn [b01] in HC; lia.
    - (* new key *)
      assert (HC : forall x, count_refs m' x = b01 (beqb h x) + count_refs (km s) x).
      { intros x. apply (count_ins_none _ _ (mkItem h sz) x G). }
      destruct (do_inc_rep sizeof (set_km s m') (count_refs (km s)) h sz R0 (eq_sym Hh))
        as (R2 & K2 & L2 & Z2).
      eexists _, _. split; [reflexivity|].
      cbn [set_km km lpv] in K2, L2.
      split; [|split; [exact K2|split; [exact L2|split; [constructor|]]]].
      + apply (rep_to_inv sizeof); rewrite ?K2; try assumption.
        eapply Rep_ext; [|exact R2]. intros x. rewrite HC. lia.
      + intros x. rewrite K2, HC. split; [intros []|lia].
  Qed.

  (* ---- apply_remove ---- *)
  Lemma apply_remove_ok ks : forall s acc,
    IdxInv s ->
    exists s' l,
      apply_remove cmp s ks acc = Ok (s', acc ++ l) /\ IdxInv s' /\
      km s' = fold_left (fun m k => sm_del cmp m k) ks (km s) /\ lpv s' = lpv s /\
      NoDup l /\
      (forall x, count_refs (km s') x <= count_refs (km s) x) /\
      (forall x, In x l <-> 0 < count_refs (km s) x /\ count_refs (km s') x = 0).
  Proof using cmp_refl cmp_eq cmp_antisym cmp_trans.
    induction ks as [|k ks IH]; intros s acc Inv.
    - exists s, []. rewrite app_nil_r. cbn [apply_remove fold_left].
      split; [reflexivity|]. split; [exact Inv|]. split; [reflexivity|]. split; [reflexivity|].
      split; [constructor|]. split; [intros x; lia|]. intros x. split; [intros []|lia].
    - cbn [apply_remove fold_left].
      destruct (sm_get cmp (km s) k) as [it|] eqn:G.
      + pose proof Inv as (Sk & Sr & Hr & Hs & Hu & Ht).
        destruct (hashes_sized_oracle _ Hs) as [sizeof SB].
        set (m1 := sm_del cmp (km s) k).
        assert (Ip : In (k, it) (km s)) by (apply (KX get_in _ _ _ Sk), G).
        assert (HC : forall x, count_refs m1 x + b01 (beqb (ihash it) x) = count_refs (km s) x).
        { intros x. apply (count_del_some _ _ _ x G). }
        assert (P : 0 < count_refs (km s) (ihash it)) by (eapply count_pos_in, Ip).
        pose proof (inv_to_rep sizeof s Inv SB) as R0.
        destruct (do_dec_rep sizeof (set_km s m1) (count_refs (km s)) (ihash it) (isize it) acc
                             R0 P (SB _ _ Ip))
          as (s1 & E1 & R1 & K1 & L1 & Z1).
        rewrite E1. cbn [rbind]. cbn [set_km km lpv] in K1, L1.
        assert (Inv1 : IdxInv s1).
        { apply (rep_to_inv sizeof); rewrite ?K1.
          - apply (KX sorted_del), Sk.
          - intros a i I. apply (KX In_del) in I. eapply SB, I.
          - eapply Rep_ext; [|exact R1]. intros x. specialize (HC x). cbn beta. lia. }
        set (l1 := if count_refs (km s) (ihash it) =? 1 then [ihash it] else []).
        assert (EA : (if count_refs (km s) (ihash it) =? 1 then acc ++ [ihash it] else acc)
                     = acc ++ l1).
        { unfold l1. destruct (_ =? 1); [reflexivity|rewrite app_nil_r; reflexivity]. }
        rewrite EA.
        destruct (IH s1 (acc ++ l1) Inv1) as (s' & l2 & E2 & Inv' & K2 & L2 & ND2 & Le2 & In2).
        exists s', (l1 ++ l2). rewrite app_assoc.
        split; [exact E2|]. split; [exact Inv'|].
        rewrite K1 in K2, Le2, In2.
        split; [exact K2|]. split; [congruence|].
        assert (Le : forall x, count_refs (km s') x <= count_refs (km s) x).
        { intros x. specialize (Le2 x). specialize (HC x). lia. }
        split; [|split; [exact Le|]].
        * unfold l1. destruct (N.eqb_spec (count_refs (km s) (ihash it)) 1) as [C|C];
            cbn [app]; [|exact ND2].
          constructor; [|exact ND2]. intros I. apply In2 in I.
          specialize (HC (ihash it)). rewrite beqb_refl in HC. cbn [b01] in HC. lia.
        * intros x. rewrite in_app_iff, In2. specialize (HC x). specialize (Le2 x).
          unfold l1.
          destruct (N.eqb_spec (count_refs (km s) (ihash it)) 1) as [C|C]; cbn [In].
          -- split.
             ++ intros [[<-|[]]|[P1 P2]].
                ** rewrite beqb_refl in HC. cbn [b01] in HC. lia.
                ** lia.
             ++ intros [P1 P2].
                destruct (beqb (ihash it) x) eqn:B1; cbn [b01] in HC.
                ** apply beqb_true_iff in B1. left; left; exact B1.
                ** right. lia.
          -- split.
             ++ intros [[]|[P1 P2]]. lia.
             ++ intros [P1 P2]. right.
                destruct (beqb (ihash it) x) eqn:B1; cbn [b01] in HC; [|lia].
                apply beqb_true_iff in B1. subst x. lia.
      + rewrite (KX del_absent _ _ G). apply IH, Inv.
  Qed.

  (* ---- the C12 theorems ---- *)
  Definition km_expected (s : istate) (o : rawop) : smap item :=
    match o with
    | RPut k h sz => sm_ins cmp (km s) k (mkItem h sz)
    | RRemove ks => fold_left (fun m k => sm_del cmp m k) ks (km s)
    end.

  (* everything at once *)
  Theorem C12_apply s o :
    IdxInv s -> op_respects_sizes s o ->
    exists s' un,
      apply_op cmp s o = Ok (s', un) /\ IdxInv s' /\
      km s' = km_expected s o /\ lpv s' = lpv s /\
      NoDup un /\
      (forall h, In h un <-> 0 < count_refs (km s) h /\ count_refs (km s') h = 0).
  Proof using cmp_refl cmp_eq cmp_antisym cmp_trans.
    intros Inv Hop. destruct o as [k h sz|ks]; cbn [apply_op km_expected].
    - apply apply_put_ok; assumption.
    - destruct (apply_remove_ok ks s [] Inv) as (s' & l & E & Inv' & K & L & ND & _ & HI).
      exists s', l. cbn [app] in E.
      split; [exact E|]. split; [exact Inv'|]. split; [exact K|]. split; [exact L|].
      split; [exact ND|exact HI].
  Qed.

  (* apply never errors (no DecZero / HashNotFound / SizeMismatch / Underflow) and
     re-establishes the invariant *)
  Theorem C12_apply_ok s o :
    IdxInv s -> op_respects_sizes s o ->
    exists s' un, apply_op cmp s o = Ok (s', un) /\ IdxInv s'.
  Proof using cmp_refl cmp_eq cmp_antisym cmp_trans.
    intros Inv Hop. destruct (C12_apply s o Inv Hop) as (s' & un & E & Inv' & _).
    exists s', un. split; assumption.
  Qed.

  (* the reported unreferenced hashes are exactly those whose count dropped to zero *)
  Theorem C12_unreferenced s o s' un :
    IdxInv s -> op_respects_sizes s o -> apply_op cmp s o = Ok (s', un) ->
    NoDup un /\
    (forall h, In h un <-> 0 < count_refs (km s) h /\ count_refs (km s') h = 0).
  Proof using cmp_refl cmp_eq cmp_antisym cmp_trans.
    intros Inv Hop E. destruct (C12_apply s o Inv Hop) as (s2 & un2 & E2 & _ & _ & _ & ND & HI).
    rewrite E in E2. inversion E2; subst. split; assumption.
  Qed.

  (* no zero entries; the known blobs are exactly the referenced hashes *)
  Theorem C12_counts_exact s : IdxInv s ->
    forall h c, rc_get (rc s) h = Some c <-> (c = count_refs (km s) h /\ 0 < c).
  Proof using.
    intros (_ & _ & Hr & _) h c. rewrite Hr.
    destruct (N.eqb_spec (count_refs (km s) h) 0) as [Z|Z]; split.
    - discriminate.
    - intros [-> P]. lia.
    - intros H; inversion H; subst. split; [reflexivity|lia].
    - intros [-> _]. reflexivity.
  Qed.

  Corollary C12_known_iff_referenced s : IdxInv s ->
    forall h, rc_get (rc s) h <> None <-> exists k i, In (k, i) (km s) /\ ihash i = h.
  Proof using.
    intros Inv h. pose proof Inv as (_ & _ & Hr & _). rewrite Hr.
    destruct (N.eqb_spec (count_refs (km s) h) 0) as [Z|Z]; split.
    - intros H; contradiction.
    - intros (k & i & I & <-). apply count_pos_in in I. lia.
    - intros _. apply count_pos_ex. lia.
    - intros _. discriminate.
  Qed.

  (* the incrementally maintained statistics equal the recomputed ones *)
  Theorem C12_incremental_eq_recomputed s x : IdxInv s ->
    ub (recompute_stats s x) = ub s /\ tb (recompute_stats s x) = tb s.
  Proof using.
    intros (_ & _ & _ & _ & Hu & Ht). unfold recompute_stats. cbn [ub tb].
    split; symmetry; assumption.
  Qed.

  (* the key map after apply_op is the expected one (needs no invariant) *)
  Lemma apply_remove_km ks : forall s acc s' un,
    apply_remove cmp s ks acc = Ok (s', un) ->
    km s' = fold_left (fun m k => sm_del cmp m k) ks (km s) /\ lpv s' = lpv s.
  Proof using cmp_refl cmp_eq cmp_antisym cmp_trans.
    induction ks as [|k ks IH]; intros s acc s' un; cbn [apply_remove fold_left].
    - intros H; inversion H; subst. split; reflexivity.
    - destruct (sm_get cmp (km s) k) as [it|] eqn:G.
      + destruct (do_dec _ _ _ _) as [[s1 acc1]|e] eqn:E; cbn [rbind]; [|discriminate].
        apply do_dec_km in E. cbn [set_km km lpv] in E. destruct E as [K1 L1].
        intros H. apply IH in H. rewrite K1, L1 in H. exact H.
      + rewrite (KX del_absent _ _ G). apply IH.
  Qed.

  Theorem C12_km_spec s o s' un :
    apply_op cmp s o = Ok (s', un) -> km s' = km_expected s o /\ lpv s' = lpv s.
  Proof using cmp_refl cmp_eq cmp_antisym cmp_trans.
    destruct o as [k h sz|ks]; cbn [apply_op km_expected].
    - unfold apply_put. destruct (sm_get cmp (km s) k) as [p|].
      + destruct (beqb (ihash p) h).
        * destruct (isize p =? sz); [|discriminate].
          intros H; inversion H; subst. split; reflexivity.
        * destruct (do_dec _ _ _ _) as [[s1 un1]|e] eqn:E; cbn [rbind]; [|discriminate].
          apply do_dec_km in E. cbn [set_km km lpv] in E. destruct E as [K1 L1].
          intros H; inversion H; subst.
          destruct (do_inc_km s1 h sz) as [K2 L2]. rewrite K2, L2. split; assumption.
      + intros H; inversion H; subst.
        destruct (do_inc_km (set_km s (sm_ins cmp (km s) k (mkItem h sz))) h sz) as [K2 L2].
        rewrite K2, L2. split; reflexivity.
    - apply apply_remove_km.
  Qed.

  (* ---- the statistics in terms of the rc map: unique_blobs is the number of known
     hashes, total_bytes the sum of their sizes ---- *)
  Lemma same_dom_keys (U R : smap N) :
    sorted lex_cmp U -> sorted lex_cmp R ->
    (forall h, sm_get lex_cmp U h = None <-> sm_get lex_cmp R h = None) ->
    map fst U = map fst R.
  Proof using.
    revert R. induction U as [|[h1 z1] U IH]; intros [|[h2 z2] R] SU SR H.
    - reflexivity.
    - exfalso. specialize (H h2). cbn [sm_get] in H. rewrite lex_refl in H.
      destruct H as [H _]. specialize (H eq_refl). discriminate.
    - exfalso. specialize (H h1). cbn [sm_get] in H. rewrite lex_refl in H.
      destruct H as [_ H]. specialize (H eq_refl). discriminate.
    - destruct (LX sorted_inv _ _ _ SU) as [L1 SU']. destruct (LX sorted_inv _ _ _ SR) as [L2 SR'].
      assert (E : lex_cmp h1 h2 = Eq).
      { destruct (lex_cmp h1 h2) eqn:E; [reflexivity| |]; exfalso.
        - specialize (H h1). cbn [sm_get] in H. rewrite lex_refl, E in H.
          destruct H as [_ H]. specialize (H eq_refl). discriminate.
        - specialize (H h2). cbn [sm_get] in H.
          rewrite lex_refl, (LX cmp_gt_lt _ _ E) in H.
          destruct H as [H _]. specialize (H eq_refl). discriminate. }
      apply lex_eq in E. subst h2. cbn [map fst]. f_equal.
      apply IH; try assumption.
      intros h. specialize (H h). cbn [sm_get] in H.
      destruct (lex_cmp h h1) eqn:E.
      + apply lex_eq in E. subst h.
        rewrite (LX get_lb _ _ L1), (LX get_lb _ _ L2). tauto.
      + rewrite (LX get_lb U h), (LX get_lb R h); [tauto| |];
          eapply (LX lb_trans); eassumption.
      + exact H.
  Qed.

  Lemma inv_keys s : IdxInv s -> map fst (uniq_sizes (km s) []) = map fst (rc s).
  Proof using.
    intros Inv. pose proof Inv as (_ & Sr & Hr & Hs & _).
    destruct (hashes_sized_oracle _ Hs) as [sizeof SB].
    apply same_dom_keys; [apply uniq_sizes_sorted|exact Sr|].
    intros h. rewrite uniq_sizes_get, (fsz_sized sizeof _ _ SB).
    change (sm_get lex_cmp (rc s) h) with (rc_get (rc s) h). rewrite Hr.
    destruct (count_refs (km s) h =? 0); split; auto; discriminate.
  Qed.

  Theorem C12_ub_is_rc_length s : IdxInv s -> ub s = N.of_nat (length (rc s)).
  Proof using.
    intros Inv. pose proof Inv as (_ & _ & _ & _ & Hu & _).
    rewrite Hu, <- (map_length fst (uniq_sizes _ _)), (inv_keys s Inv), map_length. reflexivity.
  Qed.

  Theorem C12_tb_is_rc_sum s sizeof : IdxInv s -> sized_by sizeof (km s) ->
    tb s = fold_right (fun h a => sizeof h + a) 0 (map fst (rc s)).
  Proof using.
    intros Inv SB. pose proof Inv as (_ & _ & _ & _ & _ & Ht).
    rewrite Ht, <- (inv_keys s Inv).
    assert (G : forall h z, In (h, z) (uniq_sizes (km s) []) -> z = sizeof h).
    { intros h z I. apply (lex_get_in _ _ _ (uniq_sizes_sorted _)) in I.
      rewrite uniq_sizes_get, (fsz_sized sizeof _ _ SB) in I.
      destruct (count_refs (km s) h =? 0); [discriminate|]. inversion I; reflexivity. }
    revert G. generalize (uniq_sizes (km s) []). intros U.
    induction U as [|[h z] U IH]; intros G; [reflexivity|].
    cbn [usum fold_right map fst snd]. rewrite (G h z) by (left; reflexivity).
    f_equal. apply IH. intros a b I. apply G. right; exact I.
  Qed.

  (* ---- snapshot load ---- *)
  Section Load.
    Variable t : ktype.

    Definition load_step (s : istate) (e : entry) : istate :=
      mkIstate (sm_ins cmp (km s) (fst e) (snd e)) (fst (inc_ref (rc s) (ihash (snd e))))
               (lpv s) (ub s) (tb s) (ssz s).

    Lemma load_fold l : forall s,
      NoDup (map fst l) -> sorted cmp (km s) ->
      (forall k, In k (map fst l) -> ~ In k (sm_keys (km s))) ->
      RcRep (rc s) (count_refs (km s)) ->
      let s' := fold_left load_step l s in
      RcRep (rc s') (count_refs (km s')) /\ sorted cmp (km s') /\ lpv s' = lpv s /\
      km s' = fold_left (fun m e => sm_ins cmp m (fst e) (snd e)) l (km s) /\
      ub s' = ub s /\ tb s' = tb s.
    Proof using cmp_refl cmp_eq cmp_antisym cmp_trans.
      induction l as [|[k i] l IH]; intros s ND Sk Dj R; cbn [fold_left].
      - split; [exact R|]. split; [exact Sk|]. repeat split; reflexivity.
      - inversion ND as [|? ? N1 ND']; subst.
        assert (G : sm_get cmp (km s) k = None).
        { apply (KX get_none_notin _ _ Sk). apply Dj. left; reflexivity. }
        set (s1 := load_step s (k, i)).
        assert (K1 : km s1 = sm_ins cmp (km s) k i) by reflexivity.
        assert (R1 : RcRep (rc s1) (count_refs (km s1))).
        { destruct (inc_ref_rep _ _ (ihash i) R) as [E R'].
          unfold s1, load_step. cbn [rc km fst snd]. rewrite E. cbn [fst].
          eapply RcRep_ext; [|exact R']. intros x. cbn beta.
          rewrite (count_ins_none _ _ i x G). lia. }
        assert (S1 : sorted cmp (km s1)) by (rewrite K1; apply (KX sorted_ins), Sk).
        assert (D1 : forall k', In k' (map fst l) -> ~ In k' (sm_keys (km s1))).
        { intros k' I J. rewrite K1 in J. apply in_map_iff in J.
          destruct J as [[a b] [Ea J]]. cbn [fst] in Ea. subst a.
          apply (KX In_ins) in J. destruct J as [J|J].
          - inversion J; subst. contradiction.
          - apply (Dj k'); [right; exact I|]. apply in_map_iff. exists (k', b). split; auto. }
        destruct (IH s1 ND' S1 D1 R1) as (Ra & Sa & La & Ka & Ua & Ta).
        exact (conj Ra (conj Sa (conj La (conj Ka (conj Ua Ta))))).
    Qed.

    (* the loaded state has exact reference counts and a sorted key map *)
    Theorem C12_load ver es s :
      load_entries cmp t ver es = Some s ->
      (forall h, rc_get (rc s) h =
                 if count_refs (km s) h =? 0 then None else Some (count_refs (km s) h)) /\
      sorted lex_cmp (rc s) /\ sorted cmp (km s) /\ lpv s = ver /\
      km s = fold_left (fun m e => sm_ins cmp m (fst e) (snd e))
               (fold_left (fun m e => sm_ins lex_cmp m (fst e) (snd e)) es []) [].
    Proof using cmp_refl cmp_eq cmp_antisym cmp_trans.
      unfold load_entries.
      set (raw := fold_left (fun m e => sm_ins lex_cmp m (fst e) (snd e)) es []).
      destruct (forallb _ raw); [|discriminate]. intros H; inversion H as [H']; clear H.
      assert (SR : sorted lex_cmp raw) by (apply (LX fold_ins_sorted); exact I).
      pose proof (load_fold raw (mkIstate [] [] ver 0 0 0)) as F.
      cbn [km rc lpv] in F. fold load_step in *. unfold load_step in *.
      destruct F as ([Sr Hr] & Sk & L & K & _).
      - apply (LX keys_nodup), SR.
      - exact I.
      - intros k _ [].
      - split; [exact I|]. intros h. reflexivity.
      - repeat split; assumption.
    Qed.

    (* a snapshot written from a sorted key map with valid keys is read back identically *)
    Theorem C12_load_sorted ver es :
      sorted cmp es -> (forall e, In e es -> key_valid t (fst e) = true) ->
      exists s, load_entries cmp t ver es = Some s /\ km s = es /\ lpv s = ver /\
                sorted lex_cmp (rc s) /\
                (forall h, rc_get (rc s) h =
                   if count_refs es h =? 0 then None else Some (count_refs es h)).
    Proof using cmp_refl cmp_eq cmp_antisym cmp_trans.
      intros Se Val.
      destruct (load_entries cmp t ver es) as [s|] eqn:E.
      - exists s. destruct (C12_load _ _ _ E) as (Hr & Sr & Sk & L & K).
        assert (Ke : km s = es).
        { apply (KX sorted_same_elements); try assumption.
          intros [k i]. rewrite K.
          set (raw := fold_left (fun m e => sm_ins lex_cmp m (fst e) (snd e)) es []).
          assert (SR : sorted lex_cmp raw) by (apply (LX fold_ins_sorted); exact I).
          rewrite (KX fold_ins_In raw [] k i (LX keys_nodup _ SR) I).
          unfold raw.
          rewrite (LX fold_ins_In es [] k i (KX keys_nodup _ Se) I).
          cbn [In]. tauto. }
        rewrite Ke in Hr. repeat split; assumption.
      - exfalso. unfold load_entries in E.
        set (raw := fold_left (fun m e => sm_ins lex_cmp m (fst e) (snd e)) es []) in E.
        destruct (forallb (fun e => key_valid t (fst e)) raw) eqn:F; [discriminate|].
        assert (F' : forallb (fun e => key_valid t (fst e)) raw = true).
        { apply forallb_forall. intros [k i] J. apply Val.
          unfold raw in J.
          apply (LX fold_ins_In es [] k i (KX keys_nodup _ Se) I) in J.
          cbn [In] in J. tauto. }
        congruence.
    Qed.

    (* load leaves the statistics at 0; after recompute_stats the full invariant holds
       (given one-hash-one-size, which load cannot know by itself) *)
    Theorem C12_load_recompute ver es s x :
      load_entries cmp t ver es = Some s -> hashes_sized (km s) ->
      IdxInv (recompute_stats s x).
    Proof using cmp_refl cmp_eq cmp_antisym cmp_trans.
      intros E HS. destruct (C12_load _ _ _ E) as (Hr & Sr & Sk & _ & _).
      unfold IdxInv, recompute_stats. cbn [km rc ub tb].
      exact (conj Sk (conj Sr (conj Hr (conj HS (conj eq_refl eq_refl))))).
    Qed.
  End Load.
End Index.

(* ------------------------------------------------------------------------------------ *)
(* a concrete state: two keys sharing one blob *)
Example C12_example :
  IdxInv lex_cmp
    (mkIstate [([1], mkItem [7] 3); ([2], mkItem [7] 3)] [([7], 2)] 0 1 3 0).
Proof.
  unfold IdxInv. cbn [km rc ub tb]. repeat split.
  - intros h. cbn [count_refs ihash]. unfold rc_get. cbn [sm_get].
    destruct (beqb [7] h) eqn:B; cbn [b01].
    + apply beqb_true_iff in B. subst h. reflexivity.
    + destruct (lex_cmp h [7]) eqn:E; try reflexivity.
      apply lex_eq in E. subst h. discriminate.
  - intros k1 k2 i1 i2 [H1|[H1|[]]] [H2|[H2|[]]] _;
      inversion H1; inversion H2; subst; reflexivity.
Qed.

(* the example evolves as expected: removing one key keeps the blob, removing both frees it *)
Example C12_example_run :
  let s0 := mkIstate [([1], mkItem [7] 3); ([2], mkItem [7] 3)] [([7], 2)] 0 1 3 0 in
  apply_op lex_cmp s0 (RRemove [[1]]) =
    Ok (mkIstate [([2], mkItem [7] 3)] [([7], 1)] 0 1 3 0, []) /\
  apply_op lex_cmp s0 (RRemove [[1]; [2]]) = Ok (mkIstate [] [] 0 0 0 0, [[7]]).
Proof. split; reflexivity. Qed.

Print Assumptions C12_empty.
Print Assumptions C12_apply.
Print Assumptions C12_apply_ok.
Print Assumptions C12_unreferenced.
Print Assumptions C12_counts_exact.
Print Assumptions C12_incremental_eq_recomputed.
Print Assumptions C12_km_spec.
Print Assumptions C12_ub_is_rc_length.
Print Assumptions C12_tb_is_rc_sum.
Print Assumptions C12_load.
Print Assumptions C12_load_sorted.
Print Assumptions C12_load_recompute.
Print Assumptions C12_example.
Print Assumptions C12_example_run.
