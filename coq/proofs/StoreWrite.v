(* StoreWrite.v -- the write path of the store model (theories/Store.v) in fault-free worlds. *)
From Cas Require Import History.
From CasProofs Require Import BaseProofs SMapProofs IndexProofs StoreFS StoreInv.
From Coq Require Import ZifyBool ZifyNat ZifyN.
Open Scope N_scope.

Definition is_wal (q : path) : Prop := match q with PWal _ => True | _ => False end.
Definition is_meta (q : path) : Prop :=
  match q with PIndex | PIndexTmp | PWal _ => True | _ => False end.
Definition is_cas (q : path) : Prop := match q with PCas _ => True | _ => False end.
Definition is_staging (q : path) : Prop := match q with PStaging _ => True | _ => False end.

Definition not_cas (q : path) : Prop := match q with PCas _ => False | _ => True end.

(* C06: a recorded call never creates, opens, appends to or syncs a file under cas/; a CAS
   path only ever appears as the target of a rename from staging/ or in an unlink *)
Definition cas_safe_call (c : call) : Prop :=
  match c with
  | CMkdir _ => True
  | CCreate p | CCreateExcl p | COpenAppend p | CAppend p _ | CSync p => not_cas p
  | CRename p q => is_staging p \/ (not_cas p /\ not_cas q)
  | CUnlink _ => True
  end.
Definition cas_safe (e : tev) : Prop := match e with TCall c | TFault c => cas_safe_call c end.

Lemma len_sentinel : len sentinel = 44.
Proof. reflexivity. Qed.

Section StoreWrite.
  Variable H : bytes -> bytes.
  Hypothesis H_len : forall b, length (H b) = 32%nat.
  Hypothesis H_byte : forall b, Forall (fun x => x < 256) (H b).
  Variable cfg : config.
  Hypothesis n_pos : 0 < c_n cfg.
  Let cmp := key_cmp (c_kt cfg).

  Local Notation KX L :=
    (L cmp (key_cmp_refl _) (key_cmp_eq _) (key_cmp_antisym _) (key_cmp_trans _)) (only parsing).

  (* ---------------------------------------------------------------- *)
  (* W1. BufWriter and WAL segment writer                              *)
  (* ---------------------------------------------------------------- *)
  Section Wal.
    Variable T : path -> Prop.

    Lemma bw_flush_ok : forall p buf w, wfault w = None -> T p -> fget (wfs w) p <> None ->
      exists w', bw_flush p buf w = ((Ok tt, []), w') /\ Step T (ev_on T) w w' /\
                 fget (wfs w') p <> None.
    Proof.
      intros p buf w F Tp G. destruct buf as [|x buf].
      - exists w. split; [reflexivity|]. split; [now apply step_refl|exact G].
      - destruct (fget (wfs w) p) as [f|] eqn:Gf; [|contradiction].
        destruct (call_append T w p f (x :: buf) F Tp Gf) as (w' & E & S & St).
        exists w'. unfold bw_flush. rewrite (bind_eq _ _ _ _ _ E). split; [reflexivity|].
        split; [exact St|]. rewrite S, fget_upd_same. discriminate.
    Qed.

    Lemma bw_write_all_ok : forall p data w, wfault w = None -> T p -> fget (wfs w) p <> None ->
      exists b' w', bw_write_all p [] data w = ((Ok tt, b'), w') /\ Step T (ev_on T) w w' /\
                    fget (wfs w') p <> None.
    Proof.
      intros p data w F Tp G. unfold bw_write_all. cbv zeta.
      destruct (len data <? BUFCAP - len []).
      - exists ([] ++ data), w. split; [reflexivity|]. split; [now apply step_refl|exact G].
      - assert (E0 : (if BUFCAP - len [] <? len data then bw_flush p [] else ret (Ok tt, [])) w
                     = ((Ok tt, []), w)) by (destruct (BUFCAP - len [] <? len data); reflexivity).
        rewrite (bind_eq _ _ _ _ _ E0).
        destruct (BUFCAP <=? len data).
        + destruct (fget (wfs w) p) as [f|] eqn:Gf; [|contradiction].
          destruct (call_append T w p f data F Tp Gf) as (w' & E & S & St).
          exists [], w'. rewrite (bind_eq _ _ _ _ _ E). split; [reflexivity|].
          split; [exact St|]. rewrite S, fget_upd_same. discriminate.
        + exists ([] ++ data), w. split; [reflexivity|]. split; [now apply step_refl|exact G].
    Qed.

    Lemma sync_ok : forall p w, wfault w = None -> T p -> fget (wfs w) p <> None ->
      exists w', do_call (CSync p) w = (Ok tt, w') /\ Step T (ev_on T) w w' /\
                 fget (wfs w') p <> None.
    Proof.
      intros p w F Tp G. destruct (fget (wfs w) p) as [f|] eqn:Gf; [|contradiction].
      destruct (call_sync T w p f F Tp Gf) as (w' & E & S & St).
      exists w'. split; [exact E|]. split; [exact St|]. rewrite S, fget_upd_same. discriminate.
    Qed.

    Lemma write_entry_ok : forall seg ver payload w,
      wfault w = None -> T (PWal seg) -> fget (wfs w) (PWal seg) <> None ->
      exists w', write_entry H seg [] ver payload w = ((Ok tt, []), w') /\
                 Step T (ev_on T) w w' /\ fget (wfs w') (PWal seg) <> None.
    Proof.
      intros seg ver payload w F Tp G. unfold write_entry. cbv zeta.
      destruct (bw_write_all_ok (PWal seg) (enc_record H ver payload) w F Tp G)
        as (b1 & w1 & E1 & S1 & G1).
      rewrite (bind_eq _ _ _ _ _ E1).
      destruct (bw_flush_ok (PWal seg) b1 w1 (st_fault _ _ _ _ S1) Tp G1) as (w2 & E2 & S2 & G2).
      rewrite (bind_eq _ _ _ _ _ E2).
      destruct (sync_ok (PWal seg) w2 (st_fault _ _ _ _ S2) Tp G2) as (w3 & E3 & S3 & G3).
      rewrite (bind_eq _ _ _ _ _ E3).
      exists w3. split; [reflexivity|]. split; [|exact G3].
      eapply step_trans; [exact S1|]. eapply step_trans; eassumption.
    Qed.

    Lemma writer_close_ok : forall seg buf w,
      wfault w = None -> T (PWal seg) -> fget (wfs w) (PWal seg) <> None ->
      exists w', writer_close seg buf w = (Ok tt, w') /\
                 Step T (ev_on T) w w' /\ fget (wfs w') (PWal seg) <> None.
    Proof.
      intros seg buf w F Tp G. unfold writer_close.
      destruct (bw_flush_ok (PWal seg) buf w F Tp G) as (w2 & E2 & S2 & G2).
      rewrite (bind_eq _ _ _ _ _ E2).
      destruct (sync_ok (PWal seg) w2 (st_fault _ _ _ _ S2) Tp G2) as (w3 & E3 & S3 & G3).
      rewrite (bind_eq _ _ _ _ _ E3).
      exists w3. split; [reflexivity|]. split; [|exact G3]. eapply step_trans; eassumption.
    Qed.

    Lemma writer_seal_ok : forall seg w,
      wfault w = None -> T (PWal seg) -> fget (wfs w) (PWal seg) <> None ->
      exists w', writer_seal seg [] w = (Ok tt, w') /\
                 Step T (ev_on T) w w' /\ fget (wfs w') (PWal seg) <> None.
    Proof.
      intros seg w F Tp G. unfold writer_seal.
      destruct (bw_write_all_ok (PWal seg) sentinel w F Tp G) as (b1 & w1 & E1 & S1 & G1).
      rewrite (bind_eq _ _ _ _ _ E1).
      destruct (writer_close_ok seg b1 w1 (st_fault _ _ _ _ S1) Tp G1) as (w2 & E2 & S2 & G2).
      exists w2. split; [exact E2|]. split; [|exact G2]. eapply step_trans; eassumption.
    Qed.
  End Wal.

  (* the append of one record: fault-free it always succeeds, leaves an empty buffer and the
     writer on the segment of the version just written; only PWal paths are touched *)
  Lemma append_op_ok : forall (wl : wal) payload w,
    wfault w = None ->
    match writer wl with
    | None => True
    | Some (sg, buf) => buf = [] /\ fget (wfs w) (PWal sg) <> None
    end ->
    exists w', append_op H cfg wl payload w
               = ((Ok (nextv wl), mkWal (nextv wl + 1) (Some (seg_of cfg (nextv wl), []))), w') /\
               Step is_wal (ev_on is_wal) w w' /\
               fget (wfs w') (PWal (seg_of cfg (nextv wl))) <> None.
  Proof.
    intros wl payload w F Hw. unfold append_op. cbv zeta.
    set (ver := nextv wl). set (target := seg_of cfg ver).
    (* phase 1: roll over if needed *)
    assert (P1 : exists w1,
      (if match writer wl with None => true | Some (s, _) => negb (s =? target) end
       then do! rs <- match writer wl with Some (s, b) => writer_seal s b | None => ret (Ok tt) end ;;
            match rs with
            | Err e => ret (Err e, mkWal (ver + 1) None)
            | Ok _ => do! r <- do_call (COpenAppend (PWal target)) ;;
                      match r with
                      | Err _ => ret (Err EWalIo, mkWal (ver + 1) None)
                      | Ok _ => ret (Ok tt, mkWal (ver + 1) (Some (target, [])))
                      end
            end
       else ret (Ok tt, mkWal (ver + 1) (writer wl))) w
      = ((Ok tt, mkWal (ver + 1) (Some (target, []))), w1) /\
      Step is_wal (ev_on is_wal) w w1 /\ fget (wfs w1) (PWal target) <> None).
    { assert (Roll : forall w0, wfault w0 = None ->
                Step is_wal (ev_on is_wal) w w0 ->
                exists w1, (do! r <- do_call (COpenAppend (PWal target)) ;;
                      match r with
                      | Err _ => ret (Err EWalIo, mkWal (ver + 1) None)
                      | Ok _ => ret (Ok tt, mkWal (ver + 1) (Some (target, [])))
                      end) w0 = ((Ok tt, mkWal (ver + 1) (Some (target, []))), w1) /\
                  Step is_wal (ev_on is_wal) w w1 /\ fget (wfs w1) (PWal target) <> None).
      { intros w0 F0 S0.
        destruct (call_open_append is_wal w0 (PWal target) F0 I eq_refl) as (w1 & E1 & G1 & S1).
        exists w1. rewrite (bind_eq _ _ _ _ _ E1). split; [reflexivity|].
        split; [eapply step_trans; eassumption|exact G1]. }
      destruct (writer wl) as [[s b]|] eqn:W.
      - destruct Hw as [-> Gs]. destruct (N.eqb_spec s target) as [Es|Es]; cbn [negb].
        + subst s. exists w. split; [reflexivity|]. split; [now apply step_refl|exact Gs].
        + destruct (writer_seal_ok is_wal s w F I Gs) as (w0 & E0 & S0 & G0).
          rewrite (bind_eq _ _ _ _ _ E0). apply Roll; [exact (st_fault _ _ _ _ S0)|exact S0].
      - unfold bind at 1. cbn [ret]. apply Roll; auto. now apply step_refl. }
    destruct P1 as (w1 & E1 & S1 & G1).
    rewrite (bind_eq _ _ _ _ _ E1). cbn [writer nextv].
    destruct (write_entry_ok is_wal target ver payload w1 (st_fault _ _ _ _ S1) I G1)
      as (w2 & E2 & S2 & G2).
    rewrite (bind_eq _ _ _ _ _ E2).
    exists w2. split; [reflexivity|]. split; [eapply step_trans; eassumption|exact G2].
  Qed.

  (* ---------------------------------------------------------------- *)
  (* W2. pruning, atomic write, checkpoint, blob deletion              *)
  (* ---------------------------------------------------------------- *)
  Lemma unlink_all_frame : forall (T : path -> Prop) ps w, wfault w = None ->
    (forall p, In p ps -> T p) ->
    exists r w', unlink_all ps w = (r, w') /\ Step T (ev_on T) w w'.
  Proof.
    intros T. induction ps as [|p ps IH]; intros w F HT; cbn [unlink_all].
    - exists (Ok tt), w. split; [reflexivity|now apply step_refl].
    - destruct (call_unlink T w p F (HT p (or_introl eq_refl))) as (r & w1 & E1 & R1 & S1 & _).
      assert (S1' : Step T (ev_on T) w w1).
      { eapply step_weaken; [| |exact S1]; [auto|]. intros e ->. cbn. apply HT. now left. }
      rewrite (bind_eq _ _ _ _ _ E1). destruct R1 as [->| ->].
      + destruct (IH w1 (st_fault _ _ _ _ S1)) as (r2 & w2 & E2 & S2).
        { intros q Iq. apply HT. now right. }
        exists r2, w2. split; [exact E2|]. eapply step_trans; eassumption.
      + exists (Err ENOENT), w1. split; [reflexivity|exact S1'].
  Qed.

  Definition wal_below (bound : N) (q : path) : Prop :=
    match q with PWal i => i < bound | _ => False end.

  Lemma prune_below_frame : forall bound w, wfault w = None ->
    exists w', prune_below bound w = (tt, w') /\
               Step (wal_below bound) (ev_on (wal_below bound)) w w'.
  Proof.
    intros bound w F. unfold prune_below. unfold bind at 1. unfold get_fs at 1.
    destruct (unlink_all_frame (wal_below bound)
                (map PWal (filter (fun i => i <? bound) (sort_ids (wal_ids (wfs w))))) w F)
      as (r & w' & E & S).
    { intros p Ip. apply in_map_iff in Ip. destruct Ip as (i & <- & Ii).
      apply filter_In in Ii. destruct Ii as [_ Ii]. cbn. lia. }
    rewrite (bind_eq _ _ _ _ _ E). exists w'. split; [reflexivity|exact S].
  Qed.

  Lemma atomic_write_ok : forall target tmp data w, wfault w = None ->
    parent_dir target = None -> parent_dir tmp = None ->
    exists w', atomic_write target tmp data w = (Ok tt, w') /\
               Step (fun q => q = target \/ q = tmp) (ev_on (fun q => q = target \/ q = tmp)) w w' /\
               exists f, fget (wfs w') target = Some f /\ fdata f = data.
  Proof.
    intros target tmp data w F Pt Pm. unfold atomic_write.
    set (T := fun q => q = target \/ q = tmp).
    assert (Tt : T target) by now left. assert (Tm : T tmp) by now right.
    destruct (call_create T w tmp F Tm) as (w1 & E1 & W1 & S1).
    { unfold parent_ok. now rewrite Pm. }
    rewrite (bind_eq _ _ _ _ _ E1).
    assert (P2 : exists w2 f, (match data with [] => ret (Ok tt) | _ => do_call (CAppend tmp data) end) w1
                          = (Ok tt, w2) /\ Step T (ev_on T) w1 w2 /\
                          fget (wfs w2) tmp = Some f /\ fdata f = data).
    { destruct data as [|x data].
      - exists w1, (mkFile [] 0). split; [reflexivity|]. split; [apply step_refl, S1|].
        split; [|reflexivity]. rewrite W1. apply fget_upd_same.
      - destruct (call_append T w1 tmp (mkFile [] 0) (x :: data) (st_fault _ _ _ _ S1) Tm)
          as (w2 & E2 & W2 & S2).
        { rewrite W1. apply fget_upd_same. }
        exists w2, (mkFile ([] ++ x :: data) 0). split; [exact E2|]. split; [exact S2|].
        split; [|reflexivity]. rewrite W2. apply fget_upd_same. }
    destruct P2 as (w2 & f2 & E2 & S2 & G2 & D2).
    rewrite (bind_eq _ _ _ _ _ E2).
    destruct (call_sync T w2 tmp f2 (st_fault _ _ _ _ S2) Tm G2) as (w3 & E3 & W3 & S3).
    rewrite (bind_eq _ _ _ _ _ E3).
    destruct (call_rename T w3 tmp target (mkFile (fdata f2) (length (fdata f2)))
                (st_fault _ _ _ _ S3) Tm Tt) as (w4 & E4 & W4 & S4).
    { rewrite W3. apply fget_upd_same. }
    { unfold parent_ok. now rewrite Pt. }
    exists w4. split; [exact E4|]. split.
    - eapply step_trans; [exact S1|]. eapply step_trans; [exact S2|].
      eapply step_trans; eassumption.
    - eexists. split; [rewrite W4, fget_ren, path_eqb_refl; reflexivity|exact D2].
  Qed.

  (* what a checkpoint may touch: the index file, its temporary, and WAL segments strictly
     below the segment of the last written version *)
  Definition ck_touch (m : mem) (q : path) : Prop :=
    match q with
    | PIndex | PIndexTmp => True
    | PWal i => i < seg_of cfg (nextv (mwal m) - 1)
    | _ => False
    end.

  Lemma ck_touch_meta : forall m q, ck_touch m q -> is_meta q.
  Proof. intros m [] X; exact I || exact X. Qed.

  Lemma checkpoint_inner_ok : forall reason m w, wfault w = None ->
    exists m' w', checkpoint_inner cfg reason m w = ((Ok tt, m'), w') /\
                  Step (ck_touch m) (ev_on is_meta) w w' /\
                  km (idx m') = km (idx m) /\ rc (idx m') = rc (idx m) /\
                  ub (idx m') = ub (idx m) /\ tb (idx m') = tb (idx m) /\
                  mwal m' = mwal m /\ mpre m' = mpre m.
  Proof.
    intros reason m w F. unfold checkpoint_inner. cbv zeta.
    match goal with |- context [if ?c then _ else _] => destruct c end.
    - exists m, w. split; [reflexivity|]. split; [now apply step_refl|]. repeat split.
    - match goal with |- context [atomic_write PIndex PIndexTmp ?d] =>
        destruct (atomic_write_ok PIndex PIndexTmp d w F eq_refl eq_refl) as (w1 & E1 & S1 & _)
      end.
      rewrite (bind_eq _ _ _ _ _ E1).
      assert (S1' : Step (ck_touch m) (ev_on is_meta) w w1).
      { eapply step_weaken; [| |exact S1].
        - intros q [->| ->]; exact I.
        - intros e. apply ev_on_weaken. intros q [->| ->]; exact I. }
      match goal with |- context [if ?c then ret tt else _] => destruct c end.
      + unfold bind at 1. cbn [ret]. eexists _, w1. split; [reflexivity|].
        split; [exact S1'|]. repeat split.
      + destruct (prune_below_frame (seg_of cfg (nextv (mwal m) - 1)) w1 (st_fault _ _ _ _ S1))
          as (w2 & E2 & S2).
        rewrite (bind_eq _ _ _ _ _ E2). eexists _, w2. split; [reflexivity|]. split.
        * eapply step_trans; [exact S1'|]. eapply step_weaken; [| |exact S2].
          -- intros [] X; try contradiction. exact X.
          -- intros e. apply ev_on_weaken. intros [] X; try contradiction. exact I.
        * repeat split.
  Qed.

  Definition blob_paths (hs : list bytes) (q : path) : Prop := exists h, In h hs /\ q = cas_path h.
  Definition unlink_cas_ev (e : tev) : Prop := exists h, e = TCall (CUnlink (cas_path h)).

  Lemma delete_blobs_ok : forall hs w, wfault w = None ->
    exists w', delete_blobs hs w = (Ok tt, w') /\
               Step (blob_paths hs) unlink_cas_ev w w' /\
               (FsWf (wfs w) -> forall h, In h hs -> fget (wfs w') (cas_path h) = None).
  Proof.
    induction hs as [|h hs IH]; intros w F; cbn [delete_blobs].
    - exists w. split; [reflexivity|]. split; [now apply step_refl|]. intros _ h [].
    - destruct (call_unlink (blob_paths (h :: hs)) w (cas_path h) F) as (r & w1 & E1 & R1 & S1 & N1).
      { exists h. split; [now left|reflexivity]. }
      rewrite (bind_eq _ _ _ _ _ E1).
      destruct (IH w1 (st_fault _ _ _ _ S1)) as (w2 & E2 & S2 & N2).
      exists w2. split; [destruct R1 as [->| ->]; exact E2|].
      assert (S2' : Step (blob_paths (h :: hs)) unlink_cas_ev w1 w2).
      { eapply step_weaken; [| |exact S2]; [|auto].
        intros q (h' & I' & ->). exists h'. split; [now right|reflexivity]. }
      split.
      + eapply step_trans; [|exact S2']. eapply step_weaken; [| |exact S1]; [auto|].
        intros e ->. now exists h.
      + intros W h' [<-|I'].
        * destruct (fr_get _ _ _ (st_frame _ _ _ _ S2) (cas_path h)) as [(h2 & I2 & Eq)|Eq].
          -- rewrite Eq. apply N2; [|exact I2]. apply (fr_wf _ _ _ (st_frame _ _ _ _ S1) W).
          -- rewrite Eq. now apply N1.
        * apply N2; [|exact I']. apply (fr_wf _ _ _ (st_frame _ _ _ _ S1) W).
  Qed.

  (* ---------------------------------------------------------------- *)
  (* W3. the abstract map and the index key map                        *)
  (* ---------------------------------------------------------------- *)
  Local Notation item_of := (item_of H).
  Local Notation km_of := (km_of H).
  Local Notation NoCollide := (NoCollide H).
  Local Notation Live0 := (Live0 H cfg).
  Local Notation Clean := (Clean H).
  Local Notation CasNamed := (CasNamed H).
  Local Notation wal_ok := (wal_ok cfg).

  Lemma km_of_get : forall sg k, sm_get cmp (km_of sg) k = option_map item_of (sm_get cmp sg k).
  Proof.
    induction sg as [|[k1 c1] sg IH]; intros k; cbn [StoreInv.km_of map sm_get fst snd]; [reflexivity|].
    destruct (cmp k k1); try reflexivity. apply IH.
  Qed.

  Lemma km_of_ins : forall sg k c,
    km_of (sm_ins cmp sg k c) = sm_ins cmp (km_of sg) k (item_of c).
  Proof.
    induction sg as [|[k1 c1] sg IH]; intros k c; cbn [StoreInv.km_of map sm_ins fst snd]; [reflexivity|].
    destruct (cmp k k1); cbn [map fst snd]; try reflexivity. f_equal. apply IH.
  Qed.

  Lemma km_of_del : forall sg k, km_of (sm_del cmp sg k) = sm_del cmp (km_of sg) k.
  Proof.
    induction sg as [|[k1 c1] sg IH]; intros k; cbn [StoreInv.km_of map sm_del fst snd]; [reflexivity|].
    destruct (cmp k k1); cbn [map fst snd]; try reflexivity. f_equal. apply IH.
  Qed.

  Lemma km_of_filter : forall (f : bytes -> bool) sg,
    km_of (filter (fun e => f (fst e)) sg) = filter (fun e => f (fst e)) (km_of sg).
  Proof.
    intros f. induction sg as [|[k1 c1] sg IH]; cbn [StoreInv.km_of map filter fst snd]; [reflexivity|].
    destruct (f k1); cbn [map fst snd]; [f_equal|]; apply IH.
  Qed.

  Lemma In_km_of : forall sg k i,
    In (k, i) (km_of sg) <-> exists c, In (k, c) sg /\ i = item_of c.
  Proof.
    intros sg k i. unfold StoreInv.km_of. rewrite in_map_iff. split.
    - intros ([k1 c1] & E & I1). cbn [fst snd] in E. inversion E; subst. now exists c1.
    - intros (c & I1 & ->). now exists (k, c).
  Qed.

  Lemma km_of_keys : forall sg, map fst (km_of sg) = map fst sg.
  Proof. intros sg. unfold StoreInv.km_of. rewrite map_map. reflexivity. Qed.

  Lemma sorted_km_of : forall sg, sorted cmp sg -> sorted cmp (km_of sg).
  Proof.
    induction sg as [|[k1 c1] sg IH]; intros S; [exact I|].
    cbn [StoreInv.km_of map fst snd]. destruct S as [S1 S2]. split; [|apply IH, S2].
    destruct sg as [|[k2 c2] sg]; [exact I|exact S1].
  Qed.

  Lemma cas_path_inj : forall a b, cas_path (H a) = cas_path (H b) -> H a = H b.
  Proof.
    intros a b E. unfold cas_path in E.
    assert (E' : hexpath (H a) = hexpath (H b)) by congruence.
    apply hexpath_inj; [apply H_len|apply H_byte|apply H_len|apply H_byte|exact E'].
  Qed.

  Lemma NoCollide_incl : forall l l', (forall x, In x l -> In x l') -> NoCollide l' -> NoCollide l.
  Proof. intros l l' I N a b Ia Ib. apply N; auto. Qed.

  Lemma IdxInv_ext : forall i i', km i' = km i -> rc i' = rc i -> ub i' = ub i -> tb i' = tb i ->
    IdxInv cmp i -> IdxInv cmp i'.
  Proof. intros i i' K R U T. unfold IdxInv. now rewrite K, R, U, T. Qed.

  (* a hash referenced by the abstract map is the hash of one of its contents *)
  Lemma count_pos_content : forall sg h, 0 < count_refs (km_of sg) h ->
    exists k c, In (k, c) sg /\ H c = h.
  Proof.
    intros sg h P. apply count_pos_ex in P. destruct P as (k & i & I1 & E).
    apply In_km_of in I1. destruct I1 as (c & I1 & ->). now exists k, c.
  Qed.

  Lemma content_count_pos : forall sg k c, In (k, c) sg -> 0 < count_refs (km_of sg) (H c).
  Proof.
    intros sg k c I1. apply (count_pos_in (km_of sg) k (item_of c)).
    apply In_km_of. now exists c.
  Qed.

  (* ---------------------------------------------------------------- *)
  (* W4. log_and_apply                                                 *)
  (* ---------------------------------------------------------------- *)
  Definition lap_touch (q : path) : Prop := is_meta q \/ is_cas q.
  Definition lap_ev (e : tev) : Prop := ev_on is_meta e \/ unlink_cas_ev e.

  (* every blob is referenced by the old or by the new map; no staging file *)
  Definition CleanU (s : fs) (sg sg' : smap bytes) : Prop :=
    (forall comps f, fget s (PCas comps) = Some f ->
       exists k c, (In (k, c) sg \/ In (k, c) sg') /\ comps = hexpath (H c))
    /\ (forall i, fget s (PStaging i) = None).

  Lemma log_and_apply_ok : forall m s sg sg' o w,
    Live0 m s sg -> wfs w = s -> wfault w = None ->
    op_respects_sizes (idx m) o ->
    sorted cmp sg' -> km_of sg' = km_expected cmp (idx m) o -> NoCollide (map snd sg') ->
    (forall k c, In (k, c) sg' -> exists f, fget s (cas_path (H c)) = Some f /\ fdata f = c) ->
    exists m' w', log_and_apply H cfg m o w = ((Ok tt, m'), w') /\
      Step lap_touch lap_ev w w' /\
      Live0 m' (wfs w') sg' /\
      (FsWf s -> CleanU s sg sg' -> Clean (wfs w') sg') /\
      (FsWf s -> CasNamed s -> CasNamed (wfs w')).
  Proof.
    intros m s sg sg' o w [Ssg Hkm Hidx Hnc Hcas Hst Hdirs Hwal] Ws F Hop Ssg' Kexp Nc' Hcas'.
    subst s. unfold log_and_apply. cbv zeta.
    destruct Hwal as [Nv Hwr].
    (* 1. the WAL append *)
    destruct (append_op_ok (mwal m) (enc_op o) w F) as (w1 & E1 & S1 & G1).
    { destruct (writer (mwal m)) as [[sgm buf]|]; [|exact I]. tauto. }
    rewrite (bind_eq _ _ _ _ _ E1).
    (* 2. the index update *)
    destruct (C12_apply cmp (key_cmp_refl _) (key_cmp_eq _) (key_cmp_antisym _) (key_cmp_trans _)
                (idx m) o Hidx Hop) as (i' & un & Eap & Inv' & Ki' & _ & _ & Hun).
    unfold cmp in Eap. rewrite Eap.
    (* 3. blob deletion *)
    destruct (delete_blobs_ok un w1 (st_fault _ _ _ _ S1)) as (w2 & E2 & S2 & N2).
    rewrite (bind_eq _ _ _ _ _ E2).
    set (wl' := mkWal (nextv (mwal m) + 1) (Some (seg_of cfg (nextv (mwal m)), []))) in *.
    set (m1 := mkMem i' wl' (mpre m)).
    (* 4. the rollover checkpoint, if any *)
    match goal with |- context [if ?c then checkpoint_inner cfg RRollover m1 else _] =>
      assert (P3 : exists m' w3, (if c then checkpoint_inner cfg RRollover m1 else ret (Ok tt, m1)) w2
                     = ((Ok tt, m'), w3) /\ Step (ck_touch m1) (ev_on is_meta) w2 w3 /\
                     km (idx m') = km (idx m1) /\ rc (idx m') = rc (idx m1) /\
                     ub (idx m') = ub (idx m1) /\ tb (idx m') = tb (idx m1) /\
                     mwal m' = mwal m1 /\ mpre m' = mpre m1);
      [destruct c;
       [apply checkpoint_inner_ok, (st_fault _ _ _ _ S2)
       |exists m1, w2; split; [reflexivity|]; split; [apply step_refl, (st_fault _ _ _ _ S2)|];
        repeat split]|]
    end.
    destruct P3 as (m' & w3 & E3 & S3 & K3 & R3 & U3 & T3 & W3 & P3).
    exists m', w3. split; [exact E3|].
    unfold m1 in K3, R3, U3, T3, W3, P3. cbn [idx mwal mpre] in K3, R3, U3, T3, W3, P3.
    (* hashes in un are hashes of old contents, unreferenced by the new map *)
    assert (UnOld : forall h, In h un -> exists k c, In (k, c) sg /\ H c = h).
    { intros h Ih. apply Hun in Ih. destruct Ih as [Ih _]. rewrite Hkm in Ih.
      now apply count_pos_content. }
    assert (UnNew : forall h k c, In h un -> In (k, c) sg' -> H c <> h).
    { intros h k c Ih Ic E. apply Hun in Ih. destruct Ih as [_ Ih].
      rewrite Ki', <- Kexp in Ih. pose proof (content_count_pos sg' k c Ic) as P. rewrite E in P. lia. }
    (* composite frame *)
    assert (FQ : forall q, is_meta q \/ blob_paths un q \/ fget (wfs w3) q = fget (wfs w) q).
    { intros q.
      destruct (fr_get _ _ _ (st_frame _ _ _ _ S1) q) as [X|X1];
        [left; destruct q; try contradiction; exact I|].
      destruct (fr_get _ _ _ (st_frame _ _ _ _ S2) q) as [X|X2]; [right; now left|].
      destruct (fr_get _ _ _ (st_frame _ _ _ _ S3) q) as [X|X3];
        [left; eapply ck_touch_meta; exact X|].
      right; right. congruence. }
    assert (Dirs : dirs (wfs w3) = dirs (wfs w)).
    { rewrite (fr_dirs _ _ _ (st_frame _ _ _ _ S3)), (fr_dirs _ _ _ (st_frame _ _ _ _ S2)).
      apply (fr_dirs _ _ _ (st_frame _ _ _ _ S1)). }
    assert (Nst : nstage (wfs w3) = nstage (wfs w)).
    { rewrite (fr_nstage _ _ _ (st_frame _ _ _ _ S3)), (fr_nstage _ _ _ (st_frame _ _ _ _ S2)).
      apply (fr_nstage _ _ _ (st_frame _ _ _ _ S1)). }
    assert (Wf3 : FsWf (wfs w) -> FsWf (wfs w3)).
    { intros W. apply (fr_wf _ _ _ (st_frame _ _ _ _ S3)), (fr_wf _ _ _ (st_frame _ _ _ _ S2)),
                  (fr_wf _ _ _ (st_frame _ _ _ _ S1)), W. }
    assert (Gone : FsWf (wfs w) -> forall h, In h un -> fget (wfs w3) (cas_path h) = None).
    { intros W h Ih.
      destruct (fr_get _ _ _ (st_frame _ _ _ _ S3) (cas_path h)) as [X|X]; [contradiction|].
      rewrite X. apply N2; [|exact Ih]. apply (fr_wf _ _ _ (st_frame _ _ _ _ S1)), W. }
    assert (Stg : forall i, fget (wfs w3) (PStaging i) = fget (wfs w) (PStaging i)).
    { intros i. destruct (FQ (PStaging i)) as [X|[(h & _ & X)|X]];
        [contradiction|discriminate|exact X]. }
    split.
    { (* trace and coarse frame *)
      eapply step_trans; [|eapply step_trans].
      - eapply step_weaken; [| |exact S1].
        + intros q X. left. destruct q; try contradiction; exact I.
        + intros e X. left. eapply ev_on_weaken; [|exact X].
          intros q Y. destruct q; try contradiction; exact I.
      - eapply step_weaken; [| |exact S2].
        + intros q (h & _ & ->). right. exact I.
        + intros e X. now right.
      - eapply step_weaken; [| |exact S3].
        + intros q X. left. eapply ck_touch_meta; exact X.
        + intros e X. now left. }
    split.
    { constructor.
      - exact Ssg'.
      - rewrite K3, Ki'. symmetry. exact Kexp.
      - eapply IdxInv_ext; [exact K3|exact R3|exact U3|exact T3|exact Inv'].
      - exact Nc'.
      - intros k c Ic. destruct (Hcas' k c Ic) as (f & Gf & Df). exists f. split; [|exact Df].
        destruct (FQ (cas_path (H c))) as [X|[(h & Ih & X)|X]]; [contradiction| |now rewrite X].
        exfalso. destruct (UnOld h Ih) as (k0 & c0 & _ & <-).
        apply cas_path_inj in X. eapply UnNew; eassumption.
      - intros i Li. rewrite Stg. apply Hst. now rewrite <- Nst.
      - destruct Hdirs as (D1 & D2 & D3). unfold dirs_ok, has_dir, parent_ok, has_dir in *.
        rewrite Dirs, P3. auto.
      - unfold StoreInv.wal_ok. rewrite W3. cbn [nextv writer wl']. split; [lia|].
        split; [reflexivity|]. split; [|split; [lia|f_equal; lia]].
        set (sgn := seg_of cfg (nextv (mwal m))) in *.
        destruct (fr_get _ _ _ (st_frame _ _ _ _ S3) (PWal sgn)) as [X|X3].
        { exfalso. unfold ck_touch, m1, wl' in X. cbn [mwal nextv] in X.
          replace (nextv (mwal m) + 1 - 1) with (nextv (mwal m)) in X by lia. fold sgn in X. lia. }
        destruct (fr_get _ _ _ (st_frame _ _ _ _ S2) (PWal sgn)) as [(h & _ & X)|X2];
          [discriminate|].
        rewrite X3, X2. exact G1. }
    split.
    { (* exact reclamation *)
      intros W [C1 C2]. split.
      - intros comps f Gf.
        destruct (FQ (PCas comps)) as [X|[(h & Ih & X)|X]]; [contradiction| |].
        + rewrite X, (Gone W h Ih) in Gf. discriminate.
        + rewrite X in Gf. destruct (C1 comps f Gf) as (k & c & [Ic|Ic] & ->); [|now exists k, c].
          destruct (N.eq_dec (count_refs (km i') (H c)) 0) as [Z|Z].
          * exfalso. assert (Ih : In (H c) un).
            { apply Hun. split; [|exact Z]. rewrite Hkm. eapply content_count_pos; exact Ic. }
            pose proof (Gone W _ Ih) as Gn. unfold cas_path in Gn. rewrite Gn in X.
            rewrite <- X in Gf. discriminate.
          * rewrite Ki', <- Kexp in Z.
            destruct (count_pos_content sg' (H c)) as (k2 & c2 & I2 & E2'); [lia|].
            exists k2, c2. split; [exact I2|now rewrite E2'].
      - intros i. rewrite Stg. apply C2. }
    { (* blob naming *)
      intros W CN comps f Gf.
      destruct (FQ (PCas comps)) as [X|[(h & Ih & X)|X]]; [contradiction| |].
      - rewrite X, (Gone W h Ih) in Gf. discriminate.
      - rewrite X in Gf. now apply CN. }
  Qed.

  (* ---------------------------------------------------------------- *)
  (* W5. directories                                                   *)
  (* ---------------------------------------------------------------- *)
  Definition mkdir_ev (e : tev) : Prop := exists d, e = TCall (CMkdir d).

  (* files and staging counter unchanged, directories only grow *)
  Record Grow (w w' : world) : Prop := mkGrow {
    gr_ext : Ext mkdir_ev w w';
    gr_files : files (wfs w') = files (wfs w);
    gr_nstage : nstage (wfs w') = nstage (wfs w);
    gr_dirs : forall d, has_dir (wfs w) d = true -> has_dir (wfs w') d = true
  }.

  Lemma grow_refl : forall w, wfault w = None -> Grow w w.
  Proof. intros w F. constructor; auto. now apply ext_refl. Qed.

  Lemma grow_trans : forall w1 w2 w3, Grow w1 w2 -> Grow w2 w3 -> Grow w1 w3.
  Proof.
    intros w1 w2 w3 [E1 F1 N1 D1] [E2 F2 N2 D2]. constructor.
    - eapply ext_trans; eassumption.
    - congruence.
    - congruence.
    - auto.
  Qed.

  Lemma grow_fget : forall w w' q, Grow w w' -> fget (wfs w') q = fget (wfs w) q.
  Proof. intros w w' q G. unfold fget. now rewrite (gr_files _ _ G). Qed.

  Lemma mkdir_p_ok : forall d w, wfault w = None ->
    (removelast d = [] \/ has_dir (wfs w) (removelast d) = true) ->
    exists w', mkdir_p d w = (Ok tt, w') /\ Grow w w' /\ has_dir (wfs w') d = true.
  Proof.
    intros d w F Par. unfold mkdir_p. unfold bind at 1, get_fs at 1.
    destruct (has_dir (wfs w) d) eqn:Hd.
    - exists w. split; [reflexivity|]. split; [now apply grow_refl|exact Hd].
    - assert (E : apply_call (CMkdir d) (wfs w)
                  = Ok (mkFs (files (wfs w)) (dirs (wfs w) ++ [d]) (nstage (wfs w)))).
      { cbn [apply_call]. rewrite Hd. destruct (removelast d) as [|x l] eqn:R; [reflexivity|].
        destruct Par as [X|X]; [discriminate|]. now rewrite X. }
      rewrite (do_call_ok _ _ _ F E). eexists. split; [reflexivity|]. split.
      + constructor; cbn [wfs files nstage].
        * split; [reflexivity|]. exists [TCall (CMkdir d)]. split; [reflexivity|].
          constructor; [now exists d|constructor].
        * reflexivity.
        * reflexivity.
        * intros d' X. apply has_dir_iff. apply has_dir_iff in X. cbn [dirs].
          apply in_or_app. now left.
      + apply has_dir_iff. cbn [wfs dirs]. apply in_or_app. right. now left.
  Qed.

  Lemma mkdir_cas2_ok : forall a b w, wfault w = None -> has_dir (wfs w) [s_cas] = true ->
    exists w', mkdir_cas2 a b w = (Ok tt, w') /\ Grow w w' /\ has_dir (wfs w') [s_cas; a; b] = true.
  Proof.
    intros a b w F Hc. unfold mkdir_cas2.
    destruct (mkdir_p_ok [s_cas; a] w F) as (w1 & E1 & G1 & D1); [right; exact Hc|].
    rewrite (bind_eq _ _ _ _ _ E1).
    destruct (mkdir_p_ok [s_cas; a; b] w1 (proj1 (gr_ext _ _ G1))) as (w2 & E2 & G2 & D2);
      [right; exact D1|].
    exists w2. split; [exact E2|]. split; [eapply grow_trans; eassumption|exact D2].
  Qed.

  Lemma lap_ev_safe : forall e, lap_ev e -> cas_safe e.
  Proof.
    intros e [X|(h & ->)]; [|exact I].
    destruct e as [c|c]; [|contradiction]. destruct c; cbn in *; try exact I;
      try (destruct p; try contradiction; exact I).
    destruct X as [X Y]. right. destruct p; try contradiction; destruct q; try contradiction;
      split; exact I.
  Qed.

  (* ---------------------------------------------------------------- *)
  (* W6. put                                                           *)
  (* ---------------------------------------------------------------- *)
  (* the result of a write operation, for the caller *)
  Definition Post (s : fs) (sg : smap bytes) (w w' : world) (m' : mem) (sg' : smap bytes) : Prop :=
    Ext cas_safe w w' /\ Live0 m' (wfs w') sg' /\
    (FsWf s -> FsWf (wfs w')) /\
    (FsWf s -> Clean s sg -> Clean (wfs w') sg') /\
    (FsWf s -> CasNamed s -> CasNamed (wfs w')).

  Lemma Live0_transfer : forall m s s' sg,
    Live0 m s sg ->
    (forall k c, In (k, c) sg -> exists f, fget s' (cas_path (H c)) = Some f /\ fdata f = c) ->
    (forall i, nstage s' <= i -> fget s' (PStaging i) = None) ->
    (forall d, has_dir s d = true -> has_dir s' d = true) ->
    (forall i, fget s (PWal i) <> None -> fget s' (PWal i) <> None) ->
    Live0 m s' sg.
  Proof.
    intros m s s' sg [L1 L2 L3 L4 L5 L6 L7 L8] C St D Wl. constructor; try assumption.
    - destruct L7 as (D1 & D2 & D3). split; [auto|]. split; [auto|].
      intros P h Lh Bh. specialize (D3 P h Lh Bh). unfold parent_ok in *.
      destruct (parent_dir (cas_path h)); auto.
    - destruct L8 as [N1 N2]. split; [exact N1|].
      destruct (writer (mwal m)) as [[sgm buf]|]; [|exact I].
      destruct N2 as (B & G & N2 & N3). repeat split; auto.
  Qed.

  Lemma ev_on_staging_safe : forall p e, is_staging p -> ev_on (eq p) e -> cas_safe e.
  Proof.
    intros p e Sp X. destruct e as [c|c]; [|contradiction].
    destruct c; cbn in *; try exact I; try (subst; destruct p0; try contradiction; exact I).
    destruct X as [<- _]. now left.
  Qed.

  Lemma mkdir_ev_safe : forall e, mkdir_ev e -> cas_safe e.
  Proof. intros e (d & ->). exact I. Qed.

  (* the staging part of put: stage, write, sync, make the fan-out directories, rename *)
  Lemma put_stage_ok : forall m s sg k chunks w,
    Live0 m s sg -> wfs w = s -> wfault w = None ->
    NoCollide (concat chunks :: map snd sg) ->
    let c := concat chunks in
    let sg' := sm_ins cmp sg k c in
    exists w5,
      put H cfg m k chunks w = log_and_apply H cfg m (RPut k (H c) (len c)) w5 /\
      Ext cas_safe w w5 /\
      Live0 m (wfs w5) sg /\
      (forall k' c', In (k', c') sg' ->
         exists f, fget (wfs w5) (cas_path (H c')) = Some f /\ fdata f = c') /\
      (FsWf s -> FsWf (wfs w5)) /\
      (FsWf s -> Clean s sg -> CleanU (wfs w5) sg sg') /\
      (FsWf s -> CasNamed s -> CasNamed (wfs w5)).
  Proof.
    intros m s sg k chunks w L Ws F NC c sg'. subst s.
    pose proof L as [Ssg Hkm Hidx Hnc Hcas Hst Hdirs Hwal]. destruct Hdirs as (D1 & D2 & D3).
    unfold put. cbv zeta. fold c. fold c in NC. subst sg'. clearbody c.
    set (h := H c). set (p := PStaging (nstage (wfs w))). set (q := cas_path h).
    assert (Npq : p <> q) by discriminate.
    (* A. the staging file *)
    set (s1 := mkFs (set_path (files (wfs w)) p (mkFile [] 0)) (dirs (wfs w)) (nstage (wfs w) + 1)).
    set (w1 := mkWorld s1 (TCall (CCreateExcl p) :: wtrace w) (S (wcount w)) None).
    assert (EA : new_staging w = (Ok p, w1)).
    { unfold new_staging. unfold bind at 1, get_fs at 1. fold p.
      assert (E : apply_call (CCreateExcl p) (wfs w) = Ok s1).
      { unfold p. cbn [apply_call]. unfold parent_ok. cbn [parent_dir]. rewrite D1.
        rewrite (Hst (nstage (wfs w))) by lia. reflexivity. }
      rewrite (bind_eq _ _ _ _ _ (do_call_ok _ _ _ F E)). reflexivity. }
    rewrite (bind_eq _ _ _ _ _ EA).
    assert (G1 : forall r, fget s1 r = if path_eqb r p then Some (mkFile [] 0) else fget (wfs w) r).
    { intros r. unfold fget, s1. cbn [files]. apply lookup_set_path. }
    (* B. the content *)
    assert (PB : exists w2 f2, (match c with [] => ret (Ok tt) | _ => do_call (CAppend p c) end) w1
                   = (Ok tt, w2) /\ Step (eq p) (ev_on (eq p)) w1 w2 /\
                   fget (wfs w2) p = Some f2 /\ fdata f2 = c).
    { destruct c as [|x c].
      - exists w1, (mkFile [] 0). split; [reflexivity|]. split; [now apply step_refl|].
        split; [|reflexivity]. cbn [wfs w1]. now rewrite G1, path_eqb_refl.
      - destruct (call_append (eq p) w1 p (mkFile [] 0) (x :: c) eq_refl eq_refl)
          as (w2 & E2 & W2 & S2).
        { cbn [wfs w1]. now rewrite G1, path_eqb_refl. }
        exists w2, (mkFile ([] ++ x :: c) 0). split; [exact E2|]. split; [exact S2|].
        split; [|reflexivity]. rewrite W2. apply fget_upd_same. }
    destruct PB as (w2 & f2 & E2 & S2 & G2 & Df2). rewrite (bind_eq _ _ _ _ _ E2).
    (* C. sync *)
    assert (PC : exists w3 f3, (if c_sync cfg then do_call (CSync p) else ret (Ok tt)) w2
                   = (Ok tt, w3) /\ Step (eq p) (ev_on (eq p)) w2 w3 /\
                   fget (wfs w3) p = Some f3 /\ fdata f3 = c).
    { destruct (c_sync cfg).
      - destruct (call_sync (eq p) w2 p f2 (st_fault _ _ _ _ S2) eq_refl G2) as (w3 & E3 & W3 & S3).
        exists w3, (mkFile (fdata f2) (length (fdata f2))). split; [exact E3|]. split; [exact S3|].
        split; [|exact Df2]. rewrite W3. apply fget_upd_same.
      - exists w2, f2. split; [reflexivity|]. split; [apply step_refl, S2|]. now split. }
    destruct PC as (w3 & f3 & E3 & S3 & G3 & Df3). rewrite (bind_eq _ _ _ _ _ E3).
    pose proof (step_trans _ _ _ _ _ S2 S3) as S13.
    assert (Dirs3 : dirs (wfs w3) = dirs (wfs w)).
    { now rewrite (fr_dirs _ _ _ (st_frame _ _ _ _ S13)). }
    (* D. the fan-out directories *)
    destruct (hexpath_shape h (H_len c) (H_byte c)) as (xa & xb & xc & Hp & _).
    assert (PD : exists w4, (if mpre m then ret (Ok tt)
                             else mkdir_cas2 (nth 0 (hexpath h) []) (nth 1 (hexpath h) [])) w3
                   = (Ok tt, w4) /\ Grow w3 w4 /\ parent_ok (wfs w4) q = true).
    { destruct (mpre m) eqn:Pre.
      - exists w3. split; [reflexivity|]. split; [apply grow_refl, S3|].
        specialize (D3 eq_refl h (H_len c) (H_byte c)). fold q in D3. unfold parent_ok, has_dir in *.
        now rewrite Dirs3.
      - destruct (mkdir_cas2_ok (nth 0 (hexpath h) []) (nth 1 (hexpath h) []) w3
                    (st_fault _ _ _ _ S3)) as (w4 & E4 & G4 & D4).
        { unfold has_dir in *. now rewrite Dirs3. }
        exists w4. split; [exact E4|]. split; [exact G4|].
        unfold parent_ok, q, cas_path. cbn [parent_dir]. rewrite Hp in *.
        cbn [removelast nth] in *. exact D4. }
    destruct PD as (w4 & E4 & G4 & PO4). rewrite (bind_eq _ _ _ _ _ E4).
    (* E. the rename into cas/ *)
    assert (G4p : fget (wfs w4) p = Some f3) by now rewrite (grow_fget _ _ _ G4).
    destruct (do_call_step (fun r => r = p \/ r = q) (fun e => e = TCall (CRename p q))
                (CRename p q) w4 (ren (wfs w4) p q f3) (proj1 (gr_ext _ _ G4)))
      as (w5 & E5 & W5 & S5).
    { cbn [apply_call]. now rewrite G4p, PO4. }
    { apply frame_ren; auto. }
    { reflexivity. }
    rewrite (bind_eq _ _ _ _ _ E5). exists w5. split; [reflexivity|].
    (* the filesystem after the staging part *)
    assert (Fo : forall r, r <> p -> r <> q -> fget (wfs w5) r = fget (wfs w) r).
    { intros r Np Nq. rewrite W5, fget_ren, (path_eqb_neq _ _ Nq), (fget_del_other _ _ _ Np).
      rewrite (grow_fget _ _ _ G4).
      destruct (fr_get _ _ _ (st_frame _ _ _ _ S13) r) as [X|X]; [now subst|].
      rewrite X. cbn [wfs w1]. now rewrite G1, (path_eqb_neq _ _ Np). }
    assert (Fq : fget (wfs w5) q = Some f3) by now rewrite W5, fget_ren, path_eqb_refl.
    assert (Wf4 : FsWf (wfs w) -> FsWf (wfs w4)).
    { intros W. unfold FsWf. rewrite (gr_files _ _ G4).
      apply (fr_wf _ _ _ (st_frame _ _ _ _ S13)). unfold FsWf. cbn [wfs w1 s1 files].
      now apply paths_set_nodup. }
    assert (Fp : FsWf (wfs w) -> fget (wfs w5) p = None).
    { intros W. rewrite W5, fget_ren, (path_eqb_neq _ _ Npq). apply fget_del_same, Wf4, W. }
    assert (Dirs5 : forall d, has_dir (wfs w) d = true -> has_dir (wfs w5) d = true).
    { intros d X. rewrite W5. unfold has_dir, ren. cbn [with_files dirs].
      apply (gr_dirs _ _ G4). unfold has_dir. now rewrite Dirs3. }
    assert (Nst5 : nstage (wfs w5) = nstage (wfs w) + 1).
    { rewrite W5. unfold ren. cbn [with_files nstage]. rewrite (gr_nstage _ _ G4).
      now rewrite (fr_nstage _ _ _ (st_frame _ _ _ _ S13)). }
    assert (Cas5 : forall c', (c' = c \/ exists k', In (k', c') sg) ->
              exists f, fget (wfs w5) (cas_path (H c')) = Some f /\ fdata f = c').
    { intros c' Hc'. destruct (path_eq_dec (cas_path (H c')) q) as [Eq|Nq].
      - assert (c' = c).
        { apply cas_path_inj in Eq. destruct Hc' as [->|(k' & Ik)]; [reflexivity|].
          apply NC; [right; apply in_map_iff; now exists (k', c')|now left|exact Eq]. }
        subst c'. exists f3. rewrite Eq. now split.
      - destruct Hc' as [->|(k' & Ik)]; [now contradiction Nq|].
        rewrite Fo; [now apply (Hcas k')|discriminate|exact Nq]. }
    split.
    { (* trace *)
      eapply ext_trans; [|eapply ext_trans; [|eapply ext_trans]].
      - instantiate (1 := w1). split; [reflexivity|]. exists [TCall (CCreateExcl p)].
        split; [reflexivity|]. constructor; [exact I|constructor].
      - eapply ext_weaken; [|exact (step_ext _ _ _ _ S13)].
        intros e. now apply ev_on_staging_safe.
      - eapply ext_weaken; [|exact (gr_ext _ _ G4)]. apply mkdir_ev_safe.
      - eapply ext_weaken; [|exact (step_ext _ _ _ _ S5)]. intros e ->. now left. }
    split.
    { eapply Live0_transfer; [exact L| | |exact Dirs5|].
      - intros k' c' Ik. apply Cas5. right. now exists k'.
      - intros i Li. rewrite Fo; [apply Hst; lia| |discriminate].
        intros X. inversion X. lia.
      - intros i Gi. rewrite Fo; [exact Gi|discriminate|discriminate]. }
    split.
    { intros k' c' Ik. apply Cas5. apply (KX In_ins) in Ik. destruct Ik as [Ik|Ik].
      - inversion Ik. now left.
      - right. now exists k'. }
    split.
    { intros W. rewrite W5. apply ren_wf, Wf4, W. }
    split.
    { intros W [C1 C2]. split.
      - intros comps f Gf. destruct (path_eq_dec (PCas comps) q) as [Eq|Nq].
        + exists k, c. split.
          * right. apply (KX In_ins_iff _ _ _ _ _ Ssg). now left.
          * unfold q, cas_path, h in Eq. congruence.
        + rewrite Fo in Gf; [|discriminate|exact Nq].
          destruct (C1 comps f Gf) as (k' & c' & Ik & Ec'). exists k', c'. split; [now left|exact Ec'].
      - intros i. destruct (N.eq_dec i (nstage (wfs w))) as [->|Ni]; [now apply Fp|].
        rewrite Fo; [apply C2| |discriminate]. intros X. inversion X. contradiction. }
    { intros W CN comps f Gf. destruct (path_eq_dec (PCas comps) q) as [Eq|Nq].
      - rewrite Eq, Fq in Gf. inversion Gf; subst f. rewrite Df3.
        unfold q, cas_path, h in Eq. congruence.
      - rewrite Fo in Gf; [|discriminate|exact Nq]. now apply CN. }
  Qed.

  Lemma Post_refl : forall m s sg w, Live0 m s sg -> wfs w = s -> wfault w = None ->
    Post s sg w w m sg.
  Proof.
    intros m s sg w L <- F. split; [now apply ext_refl|]. split; [exact L|]. split; [auto|split; auto].
  Qed.

  (* C01/C07/C06/C18 for put *)
  Theorem put_spec : forall m s sg k chunks w,
    Live0 m s sg -> wfs w = s -> wfault w = None ->
    NoCollide (concat chunks :: map snd sg) ->
    exists m' w', put H cfg m k chunks w = ((Ok tt, m'), w') /\ wfault w' = None /\
                  Post s sg w w' m' (sm_ins cmp sg k (concat chunks)).
  Proof.
    intros m s sg k chunks w L Ws F NC.
    destruct (put_stage_ok m s sg k chunks w L Ws F NC) as (w5 & E & X5 & L5 & C5 & W5 & U5 & N5).
    cbv zeta in *. set (c := concat chunks) in *. set (sg' := sm_ins cmp sg k c) in *.
    pose proof L as [Ssg Hkm _ _ _ _ _ _].
    destruct (log_and_apply_ok m (wfs w5) sg sg' (RPut k (H c) (len c)) w5 L5 eq_refl (proj1 X5))
      as (m' & w' & E' & S' & L' & U' & N'); try assumption.
    - intros k' i Ik Eh. rewrite Hkm in Ik. apply In_km_of in Ik. destruct Ik as (c' & Ic & ->).
      cbn [StoreInv.item_of ihash isize] in *.
      assert (c' = c); [|now subst].
      apply NC; [right; apply in_map_iff; now exists (k', c')|now left|exact Eh].
    - apply (KX sorted_ins), Ssg.
    - unfold sg'. rewrite km_of_ins. cbn [km_expected]. now rewrite Hkm.
    - eapply NoCollide_incl; [|exact NC]. intros x Ix. apply in_map_iff in Ix.
      destruct Ix as ([k' c'] & <- & Ik). apply (KX In_ins) in Ik. destruct Ik as [Ik|Ik].
      + inversion Ik. now left.
      + right. apply in_map_iff. now exists (k', c').
    - exists m', w'. rewrite E. split; [exact E'|]. split; [exact (st_fault _ _ _ _ S')|].
      split; [|split; [exact L'|]].
      + eapply ext_trans; [exact X5|]. eapply ext_weaken; [|exact (step_ext _ _ _ _ S')].
        apply lap_ev_safe.
      + split; [|split].
        * intros W. apply (fr_wf _ _ _ (st_frame _ _ _ _ S')), W5, W.
        * intros W C. apply U'; [now apply W5|now apply U5].
        * intros W C. apply N'; [now apply W5|now apply N5].
  Qed.

  (* ---------------------------------------------------------------- *)
  (* W7. remove, remove_range                                          *)
  (* ---------------------------------------------------------------- *)
  Lemma removal_ok : forall m s sg sg' ks w,
    Live0 m s sg -> wfs w = s -> wfault w = None ->
    sorted cmp sg' -> (forall e, In e sg' -> In e sg) ->
    km_of sg' = fold_left (fun mm k => sm_del cmp mm k) ks (km_of sg) ->
    exists m' w', log_and_apply H cfg m (RRemove ks) w = ((Ok tt, m'), w') /\
                  Post s sg w w' m' sg'.
  Proof.
    intros m s sg sg' ks w L Ws F Ssg' Sub Kd.
    pose proof L as [Ssg Hkm _ Hnc Hcas _ _ _].
    destruct (log_and_apply_ok m s sg sg' (RRemove ks) w L Ws F)
      as (m' & w' & E' & S' & L' & U' & N'); try assumption.
    - exact I.
    - cbn [km_expected]. now rewrite Hkm.
    - eapply NoCollide_incl; [|exact Hnc]. intros x Ix. apply in_map_iff in Ix.
      destruct Ix as (e & <- & Ie). apply in_map, Sub, Ie.
    - intros k c Ik. apply (Hcas k), Sub, Ik.
    - exists m', w'. split; [exact E'|]. split; [|split; [exact L'|]].
      + eapply ext_weaken; [|exact (step_ext _ _ _ _ S')]. apply lap_ev_safe.
      + subst s. split; [|split].
        * apply (fr_wf _ _ _ (st_frame _ _ _ _ S')).
        * intros W [C1 C2]. apply U'; [exact W|]. split; [|exact C2].
          intros comps f Gf. destruct (C1 comps f Gf) as (k & c & Ik & Ec). exists k, c. tauto.
        * exact N'.
  Qed.

  Theorem remove_spec : forall m s sg k w,
    Live0 m s sg -> wfs w = s -> wfault w = None ->
    exists m' w',
      remove H cfg m k w
      = ((Ok (match sm_get cmp sg k with Some _ => true | None => false end), m'), w') /\
      wfault w' = None /\ Post s sg w w' m' (sm_del cmp sg k) /\
      (sm_get cmp sg k = None -> m' = m /\ w' = w).
  Proof.
    intros m s sg k w L Ws F. pose proof L as [Ssg Hkm _ _ _ _ _ _].
    unfold remove. fold cmp. rewrite Hkm, km_of_get.
    destruct (sm_get cmp sg k) as [c0|] eqn:G; cbn [option_map].
    - destruct (removal_ok m s sg (sm_del cmp sg k) [k] w L Ws F) as (m' & w' & E' & P').
      + apply (KX sorted_del), Ssg.
      + intros e. apply (KX In_del).
      + cbn [fold_left]. apply km_of_del.
      + exists m', w'. rewrite (bind_eq _ _ _ _ _ E'). split; [reflexivity|].
        split; [exact (proj1 (proj1 P'))|]. split; [exact P'|discriminate].
    - exists m, w. split; [reflexivity|]. split; [exact F|].
      rewrite (KX del_absent _ _ G). split; [now apply Post_refl|auto].
  Qed.

  (* deleting a list of keys from a sorted map *)
  Lemma fold_del_sorted : forall {V} ks (M : smap V), sorted cmp M ->
    sorted cmp (fold_left (fun mm k => sm_del cmp mm k) ks M).
  Proof.
    intros V. induction ks as [|k ks IH]; intros M S; cbn [fold_left]; [exact S|].
    apply IH, (KX sorted_del), S.
  Qed.

  Lemma fold_del_get_none : forall {V} ks (M : smap V) x, sorted cmp M ->
    sm_get cmp M x = None ->
    sm_get cmp (fold_left (fun mm k => sm_del cmp mm k) ks M) x = None.
  Proof.
    intros V. induction ks as [|k ks IH]; intros M x S G; cbn [fold_left]; [exact G|].
    apply IH; [apply (KX sorted_del), S|].
    destruct (key_eq_dec x k) as [->|N]; [apply (KX get_del_same), S|].
    rewrite (KX get_del_other); [exact G|exact N|exact S].
  Qed.

  Lemma fold_del_get_in : forall {V} ks (M : smap V) x, sorted cmp M -> In x ks ->
    sm_get cmp (fold_left (fun mm k => sm_del cmp mm k) ks M) x = None.
  Proof.
    intros V. induction ks as [|k ks IH]; intros M x S []; cbn [fold_left].
    - subst k. apply fold_del_get_none; [apply (KX sorted_del), S|apply (KX get_del_same), S].
    - apply IH; [apply (KX sorted_del), S|assumption].
  Qed.

  Lemma fold_del_get_notin : forall {V} ks (M : smap V) x, sorted cmp M -> ~ In x ks ->
    sm_get cmp (fold_left (fun mm k => sm_del cmp mm k) ks M) x = sm_get cmp M x.
  Proof.
    intros V. induction ks as [|k ks IH]; intros M x S N; cbn [fold_left]; [reflexivity|].
    rewrite IH; [|apply (KX sorted_del), S|intros X; apply N; now right].
    apply (KX get_del_other); [|exact S]. intros ->. apply N. now left.
  Qed.

  Lemma fold_del_filter : forall {V} (f : bytes -> bool) (M : smap V), sorted cmp M ->
    fold_left (fun mm k => sm_del cmp mm k) (map fst (filter (fun e => f (fst e)) M)) M
    = filter (fun e => negb (f (fst e))) M.
  Proof.
    intros V f M S. apply (KX sm_ext).
    - apply fold_del_sorted, S.
    - apply (KX sorted_filter), S.
    - intros x. rewrite (KX get_filter _ _ _ S). cbn [fst].
      destruct (f x) eqn:Fx.
      + destruct (sm_get cmp M x) as [v|] eqn:G.
        * cbn [negb]. apply fold_del_get_in; [exact S|].
          apply in_map_iff. exists (x, v). split; [reflexivity|].
          apply filter_In. split; [now apply (KX get_in _ _ _ S)|exact Fx].
        * destruct (in_dec key_eq_dec x (map fst (filter (fun e => f (fst e)) M))) as [I1|I1].
          -- now apply fold_del_get_in.
          -- rewrite fold_del_get_notin by assumption. exact G.
      + rewrite fold_del_get_notin; [destruct (sm_get cmp M x); reflexivity|exact S|].
        intros I1. apply in_map_iff in I1. destruct I1 as ([x' v'] & E1 & I1).
        apply filter_In in I1. cbn [fst] in *. subst x'. destruct I1 as [_ I1]. congruence.
  Qed.

  Lemma filter_none_all : forall {A} (f : A -> bool) l,
    filter f l = [] -> filter (fun e => negb (f e)) l = l.
  Proof.
    intros A f. induction l as [|a l IH]; cbn [filter]; [reflexivity|].
    destruct (f a); [discriminate|]. intros E. cbn [negb]. now rewrite IH.
  Qed.

  Lemma nonempty_km_of : forall sg, nonempty (km_of sg) = nonempty sg.
  Proof. intros [|[k c] sg]; reflexivity. Qed.

  Theorem remove_range_spec : forall m s sg lo hi w,
    Live0 m s sg -> wfs w = s -> wfault w = None ->
    (nonempty (km (idx m)) && range_panics cmp lo hi) = false ->
    let inr := fun e : bytes * bytes => in_range cmp lo hi (fst e) in
    exists m' w',
      remove_range H cfg m lo hi w = ((Ok (N.of_nat (length (filter inr sg))), m'), w') /\
      wfault w' = None /\
      Post s sg w w' m' (filter (fun e => negb (inr e)) sg).
  Proof.
    intros m s sg lo hi w L Ws F NP inr. pose proof L as [Ssg Hkm _ _ _ _ _ _].
    unfold remove_range. fold cmp. rewrite NP. unfold keys_in_range. fold cmp. rewrite Hkm.
    rewrite <- (km_of_filter (in_range cmp lo hi)), km_of_keys. fold inr.
    destruct (map fst (filter inr sg)) as [|k0 ks0] eqn:Eks.
    - exists m, w. apply map_eq_nil in Eks. rewrite Eks. split; [reflexivity|]. split; [exact F|].
      rewrite (filter_none_all inr sg Eks). now apply Post_refl.
    - rewrite <- Eks.
      destruct (removal_ok m s sg (filter (fun e => negb (inr e)) sg) (map fst (filter inr sg)) w
                  L Ws F) as (m' & w' & E' & P').
      + apply (KX sorted_filter), Ssg.
      + intros e Ie. apply filter_In in Ie. tauto.
      + rewrite (km_of_filter (fun k => negb (in_range cmp lo hi k))).
        rewrite <- (km_of_keys (filter inr sg)).
        unfold inr. rewrite (km_of_filter (in_range cmp lo hi)).
        symmetry. apply (fold_del_filter (in_range cmp lo hi)). apply sorted_km_of, Ssg.
      + exists m', w'. rewrite (bind_eq _ _ _ _ _ E'). rewrite map_length.
        split; [reflexivity|]. split; [exact (proj1 (proj1 P'))|exact P'].
  Qed.

  Theorem checkpoint_spec : forall m s sg w,
    Live0 m s sg -> wfs w = s -> wfault w = None ->
    exists m' w', checkpoint cfg m w = ((Ok tt, m'), w') /\ wfault w' = None /\
                  Post s sg w w' m' sg.
  Proof.
    intros m s sg w L Ws F. subst s. unfold checkpoint.
    destruct (checkpoint_inner_ok RExplicit m w F)
      as (m' & w' & E & S & K & R & U & T & Wl & P).
    exists m', w'. split; [exact E|]. split; [exact (st_fault _ _ _ _ S)|].
    assert (FQ : forall q, is_meta q \/ fget (wfs w') q = fget (wfs w) q).
    { intros q. destruct (fr_get _ _ _ (st_frame _ _ _ _ S) q) as [X|X]; [left|now right].
      eapply ck_touch_meta; exact X. }
    destruct L as [Ssg Hkm Hidx Hnc Hcas Hst Hdirs Hwal].
    split; [|split; [constructor|split; [|split]]]; try assumption.
    - eapply ext_weaken; [|exact (step_ext _ _ _ _ S)]. intros e X. apply lap_ev_safe. now left.
    - now rewrite K.
    - eapply IdxInv_ext; [exact K|exact R|exact U|exact T|exact Hidx].
    - intros k c Ik. destruct (FQ (cas_path (H c))) as [X|X]; [contradiction|].
      rewrite X. now apply (Hcas k).
    - intros i Li. destruct (FQ (PStaging i)) as [X|X]; [contradiction|].
      rewrite X. apply Hst. now rewrite <- (fr_nstage _ _ _ (st_frame _ _ _ _ S)).
    - destruct Hdirs as (D1 & D2 & D3). unfold dirs_ok, parent_ok, has_dir in *.
      rewrite (fr_dirs _ _ _ (st_frame _ _ _ _ S)), P. auto.
    - destruct Hwal as [N1 N2]. unfold StoreInv.wal_ok. rewrite Wl. split; [exact N1|].
      destruct (writer (mwal m)) as [[sgm buf]|]; [|exact I].
      destruct N2 as (B & G & N2 & N3). repeat split; auto.
      destruct (fr_get _ _ _ (st_frame _ _ _ _ S) (PWal sgm)) as [X|X]; [|now rewrite X].
      exfalso. cbn [ck_touch] in X. subst sgm. lia.
    - apply (fr_wf _ _ _ (st_frame _ _ _ _ S)).
    - intros W [C1 C2]. split.
      + intros comps f Gf. destruct (FQ (PCas comps)) as [X|X]; [contradiction|].
        rewrite X in Gf. exact (C1 comps f Gf).
      + intros i. destruct (FQ (PStaging i)) as [X|X]; [contradiction|]. rewrite X. apply C2.
    - intros W CN comps f Gf. destruct (FQ (PCas comps)) as [X|X]; [contradiction|].
      rewrite X in Gf. now apply CN.
  Qed.

  (* ---------------------------------------------------------------- *)
  (* W8. abort (C13)                                                   *)
  (* ---------------------------------------------------------------- *)
  (* the calls of a transaction on its own staging file *)
  Definition own_staging_ev (i : N) (e : tev) : Prop :=
    e = TCall (CCreateExcl (PStaging i)) \/ (exists b, e = TCall (CAppend (PStaging i) b)) \/
    e = TCall (CUnlink (PStaging i)).

  Theorem abort_spec : forall m s sg k chunks w,
    Live0 m s sg -> wfs w = s -> wfault w = None ->
    exists w', abort m k chunks w = ((Ok tt, m), w') /\ wfault w' = None /\
               files (wfs w') = files s /\ dirs (wfs w') = dirs s /\
               nstage (wfs w') = nstage s + 1 /\
               exists tr, wtrace w' = tr ++ wtrace w /\ Forall (own_staging_ev (nstage s)) tr.
  Proof.
    intros m s sg k chunks w L Ws F. subst s.
    destruct L as [_ _ _ _ _ Hst [D1 _] _].
    set (p := PStaging (nstage (wfs w))).
    assert (Gp : lookup (files (wfs w)) p = None) by (apply (Hst (nstage (wfs w))); lia).
    unfold abort.
    set (s1 := mkFs (set_path (files (wfs w)) p (mkFile [] 0)) (dirs (wfs w)) (nstage (wfs w) + 1)).
    set (w1 := mkWorld s1 (TCall (CCreateExcl p) :: wtrace w) (S (wcount w)) None).
    assert (EA : new_staging w = (Ok p, w1)).
    { unfold new_staging. unfold bind at 1, get_fs at 1. fold p.
      assert (E : apply_call (CCreateExcl p) (wfs w) = Ok s1).
      { unfold p. cbn [apply_call]. unfold parent_ok. cbn [parent_dir]. rewrite D1.
        unfold fget. fold p. rewrite Gp. reflexivity. }
      rewrite (bind_eq _ _ _ _ _ (do_call_ok _ _ _ F E)). reflexivity. }
    rewrite (bind_eq _ _ _ _ _ EA).
    assert (PB : exists w2 g tr, (if bw_sim 0 chunks then do_call (CAppend p (concat chunks))
                                  else ret (Ok tt)) w1 = (Ok tt, w2) /\ wfault w2 = None /\
                  wfs w2 = mkFs (files (wfs w) ++ [(p, g)]) (dirs (wfs w)) (nstage (wfs w) + 1) /\
                  wtrace w2 = tr ++ wtrace w /\ Forall (own_staging_ev (nstage (wfs w))) tr).
    { assert (O1 : own_staging_ev (nstage (wfs w)) (TCall (CCreateExcl p))) by now left.
      destruct (bw_sim 0 chunks).
      - assert (E : apply_call (CAppend p (concat chunks)) (wfs w1)
                    = Ok (upd s1 p (mkFile ([] ++ concat chunks) 0))).
        { cbn [apply_call wfs w1]. unfold fget, s1. cbn [files].
          rewrite (set_path_absent _ _ _ Gp), (lookup_last _ _ _ Gp). reflexivity. }
        rewrite (do_call_ok _ w1 _ eq_refl E). eexists _, _, [_; _]. split; [reflexivity|].
        split; [reflexivity|]. split; [|split; [reflexivity|]].
        + cbn [wfs]. unfold upd, with_files, s1. cbn [files dirs nstage].
          rewrite (set_path_absent _ _ _ Gp), (set_path_last _ _ _ _ Gp). reflexivity.
        + constructor; [right; left; eexists; reflexivity|]. constructor; [exact O1|constructor].
      - exists w1, (mkFile [] 0), [TCall (CCreateExcl p)]. split; [reflexivity|].
        split; [reflexivity|]. split; [|split; [reflexivity|]].
        + cbn [wfs w1]. unfold s1. now rewrite (set_path_absent _ _ _ Gp).
        + constructor; [exact O1|constructor]. }
    destruct PB as (w2 & g & tr & E2 & F2 & W2 & T2 & A2). rewrite (bind_eq _ _ _ _ _ E2).
    assert (E3 : apply_call (CUnlink p) (wfs w2)
                 = Ok (mkFs (files (wfs w)) (dirs (wfs w)) (nstage (wfs w) + 1))).
    { cbn [apply_call]. rewrite W2. unfold fget. cbn [files]. rewrite (lookup_last _ _ _ Gp).
      unfold with_files. cbn [files dirs nstage]. now rewrite (remove_path_last _ _ _ Gp). }
    rewrite (bind_eq _ _ _ _ _ (do_call_ok _ _ _ F2 E3)).
    unfold bind at 1. cbn [ret].
    eexists. split; [reflexivity|]. cbn [wfault wfs files dirs nstage wtrace].
    repeat (split; [reflexivity|]).
    exists (TCall (CUnlink p) :: tr). split; [now rewrite T2|].
    constructor; [right; right; reflexivity|exact A2].
  Qed.

  Lemma own_staging_safe : forall i e, own_staging_ev i e -> cas_safe e.
  Proof. intros i e [->|[(b & ->)| ->]]; exact I. Qed.

  (* hence the invariants are preserved *)
  Corollary abort_post : forall m s sg k chunks w,
    Live0 m s sg -> wfs w = s -> wfault w = None ->
    exists w', abort m k chunks w = ((Ok tt, m), w') /\ wfault w' = None /\ Post s sg w w' m sg.
  Proof.
    intros m s sg k chunks w L Ws F.
    destruct (abort_spec m s sg k chunks w L Ws F) as (w' & E & F' & Fi & Di & Ns & tr & Tr & A).
    exists w'. split; [exact E|]. split; [exact F'|].
    assert (G : forall q, fget (wfs w') q = fget s q) by (intros q; unfold fget; now rewrite Fi).
    split; [|split; [|split; [|split]]].
    - split; [exact F'|]. exists tr. split; [exact Tr|].
      eapply Forall_impl; [|exact A]. apply own_staging_safe.
    - eapply Live0_transfer; [exact L| | | |].
      + intros k' c' Ik. rewrite G. destruct L as [_ _ _ _ Hcas _ _ _]. now apply (Hcas k').
      + intros i Li. rewrite G. destruct L as [_ _ _ _ _ Hst _ _]. apply Hst. lia.
      + intros d. unfold has_dir. now rewrite Di.
      + intros i. now rewrite G.
    - unfold FsWf. now rewrite Fi.
    - intros _ [C1 C2]. split.
      + intros comps f. rewrite G. apply C1.
      + intros i. rewrite G. apply C2.
    - intros _ CN comps f. rewrite G. apply CN.
  Qed.

  (* ---------------------------------------------------------------- *)
  (* W9. C06 as a statement about traces                               *)
  (* ---------------------------------------------------------------- *)
  (* for put / remove / remove_range / checkpoint / abort the conjunct [Ext cas_safe w w'] of
     [Post] says: every call recorded in the new part of the trace that names a path under cas/
     is a rename from staging/ into cas/ or an unlink *)
  Theorem trace_no_cas_write : forall s sg w w' m' sg',
    Post s sg w w' m' sg' ->
    exists tr, wtrace w' = tr ++ wtrace w /\ Forall cas_safe tr.
  Proof. intros s sg w w' m' sg' [[_ X] _]. exact X. Qed.

  Lemma cas_safe_meaning : forall c, cas_safe (TCall c) ->
    match c with
    | CCreate (PCas _) | CCreateExcl (PCas _) | COpenAppend (PCas _) | CAppend (PCas _) _
    | CSync (PCas _) | CRename (PCas _) _ => False
    | CRename p (PCas _) => exists i, p = PStaging i
    | _ => True
    end.
  Proof.
    intros c X. destruct c; cbn in X; try exact I; try (destruct p; try exact I; contradiction).
    destruct p; destruct q; try exact I; try (destruct X as [X|[X Y]]; contradiction);
      try (eexists; reflexivity).
  Qed.

  (* ---------------------------------------------------------------- *)
  (* W10. the specifications spelled out                               *)
  (* ---------------------------------------------------------------- *)
  Lemma Post_explicit : forall s sg w w' m' sg', Post s sg w w' m' sg' ->
    wfault w' = None /\ Live0 m' (wfs w') sg' /\
    (FsWf s -> FsWf (wfs w')) /\
    (FsWf s -> Clean s sg -> Clean (wfs w') sg') /\
    (FsWf s -> CasNamed s -> CasNamed (wfs w')) /\
    exists tr, wtrace w' = tr ++ wtrace w /\ Forall cas_safe tr.
  Proof.
    intros s sg w w' m' sg' ([F X] & L & W & C & N).
    split; [exact F|]. split; [exact L|]. split; [exact W|]. split; [exact C|]. split; [exact N|exact X].
  Qed.

  Corollary put_spec_explicit : forall m s sg k chunks w,
    Live0 m s sg -> wfs w = s -> wfault w = None ->
    NoCollide (concat chunks :: map snd sg) ->
    exists m' w', put H cfg m k chunks w = ((Ok tt, m'), w') /\ wfault w' = None /\
      Live0 m' (wfs w') (sm_ins cmp sg k (concat chunks)) /\
      (FsWf s -> FsWf (wfs w')) /\
      (FsWf s -> Clean s sg -> Clean (wfs w') (sm_ins cmp sg k (concat chunks))) /\
      (FsWf s -> CasNamed s -> CasNamed (wfs w')) /\
      exists tr, wtrace w' = tr ++ wtrace w /\ Forall cas_safe tr.
  Proof.
    intros m s sg k chunks w L Ws F NC.
    destruct (put_spec m s sg k chunks w L Ws F NC) as (m' & w' & E & F' & P).
    exists m', w'. split; [exact E|]. apply Post_explicit in P. tauto.
  Qed.
End StoreWrite.

Print Assumptions append_op_ok.
Print Assumptions checkpoint_inner_ok.
Print Assumptions log_and_apply_ok.
Print Assumptions put_spec.
Print Assumptions put_spec_explicit.
Print Assumptions remove_spec.
Print Assumptions remove_range_spec.
Print Assumptions checkpoint_spec.
Print Assumptions abort_spec.
Print Assumptions abort_post.
Print Assumptions trace_no_cas_write.
