(* OpenLock2Proofs.v -- property C11 for the inode-level model Cas.OpenLock2: however the two
   halves of racing opens (open(LOCK) / flock) interleave with each other and with drops, kills,
   clones and operations, at most one handle is live -- as long as the name LOCK is never
   unlinked.  With an unlink two live handles are reachable (C11_2_unlink_breaks_exclusivity). *)
From Coq Require Import List NArith Bool Arith Lia.
Import ListNotations.
From Cas Require Import OpenLock OpenLock2.

Arguments N.add : simpl never.

(* ------------------------------------------------------------------------------------------ *)
(* The invariant: at most one inode (number 0) ever exists.  Three shapes of state:            *)
(*   fresh : the name is unbound; nothing exists yet                                           *)
(*   free  : the name is bound to inode 0, nobody holds a flock, no live handle; every pending *)
(*           open holds a descriptor of inode 0                                                *)
(*   held  : as free, but exactly one live handle, which holds the one flock (on inode 0),     *)
(*           has >= 1 references and an id below next_id2.                                     *)
(* ------------------------------------------------------------------------------------------ *)
Definition pend_ok (ps : list pending) : Prop := Forall (fun p => p_ino p = 0) ps.

Inductive Inv2 : st2 -> Prop :=
| Inv2_fresh : forall c d n, Inv2 (mkSt2 None [] c d [] [] n 0)
| Inv2_free  : forall c ps n, pend_ok ps -> Inv2 (mkSt2 (Some 0) [] c true [] ps n 1)
| Inv2_held  : forall c ps n id pid r, pend_ok ps -> 1 <= r -> id < n ->
    Inv2 (mkSt2 (Some 0) [(0, id)] c true [mkH2 id pid r 0] ps n 1).

Lemma Inv2_init : Inv2 init2.
Proof. constructor. Qed.

Lemma pend_ok_filter : forall f ps, pend_ok ps -> pend_ok (filter f ps).
Proof.
  unfold pend_ok. intros f ps H. rewrite Forall_forall in *. intros p Hp.
  apply filter_In in Hp. apply H, Hp.
Qed.

Lemma pend_ok_find : forall f ps p, pend_ok ps -> find f ps = Some p -> p_ino p = 0.
Proof.
  unfold pend_ok. intros f ps p H F. apply find_some in F. rewrite Forall_forall in H.
  apply H, F.
Qed.

Ltac eqb_cases :=
  repeat match goal with
  | |- context [Nat.eqb ?a ?b] => destruct (Nat.eqb_spec a b); cbn
  | |- context [Nat.leb ?a ?b] => destruct (Nat.leb_spec a b); cbn
  end.

Local Hint Resolve pend_ok_filter : inv2.
Local Hint Constructors Inv2 : inv2.

Lemma step2_Inv2 : forall s e, Inv2 s -> e <> E2Unlink -> Inv2 (fst (step2 s e)).
Proof.
  intros s e H Hne. destruct H as [c d n|c ps n Hps|c ps n id pid r Hps Hr Hn];
    destruct e as [p|tok p|tok|hid|hid|p|hid|]; try congruence; clear Hne.
  (* fresh *)
  - cbn. apply Inv2_held; [constructor|lia|lia].
  - cbn. apply Inv2_free. constructor; [reflexivity|constructor].
  - cbn. constructor.
  - cbn. constructor.
  - cbn. constructor.
  - cbn. constructor.
  - cbn. constructor.
  (* free *)
  - cbn. apply Inv2_held; [assumption|lia|lia].
  - cbn. apply Inv2_free. constructor; [reflexivity|assumption].
  - cbn. destruct (find _ ps) as [q|] eqn:F; [|cbn; constructor; assumption].
    rewrite (pend_ok_find _ _ _ Hps F). cbn.
    apply Inv2_held; [apply pend_ok_filter, Hps|lia|lia].
  - cbn. constructor; assumption.
  - cbn. constructor; assumption.
  - cbn. constructor. apply pend_ok_filter, Hps.
  - cbn. constructor; assumption.
  (* held *)
  - cbn. constructor; assumption.
  - cbn. apply Inv2_held; [|assumption|assumption]. constructor; [reflexivity|assumption].
  - cbn. destruct (find _ ps) as [q|] eqn:F; [|cbn; constructor; assumption].
    rewrite (pend_ok_find _ _ _ Hps F). cbn.
    apply Inv2_held; [apply pend_ok_filter, Hps|lia|lia].
  - cbn. unfold has_id2. cbn. destruct (Nat.eqb_spec id hid); cbn;
      apply Inv2_held; try assumption; lia.
  - cbn. unfold has_id2. cbn. destruct (Nat.eqb_spec id hid); cbn.
    + destruct (Nat.leb_spec r 1); cbn; unfold has_id2; cbn.
      * subst. rewrite ?Nat.eqb_refl. cbn. constructor; assumption.
      * subst. rewrite ?Nat.eqb_refl. apply Inv2_held; try assumption; lia.
    + apply Inv2_held; assumption.
  - cbn. unfold has_pid2. cbn. destruct (Nat.eqb_spec pid p); cbn.
    + rewrite Nat.eqb_refl. cbn. constructor. apply pend_ok_filter, Hps.
    + apply Inv2_held; try assumption. apply pend_ok_filter, Hps.
  - cbn. unfold has_id2. cbn. destruct (Nat.eqb_spec id hid); cbn;
      apply Inv2_held; assumption.
Qed.

Lemma no_unlink_cons : forall e r, no_unlink (e :: r) -> e <> E2Unlink /\ no_unlink r.
Proof.
  unfold no_unlink. intros e r H. split.
  - intros ->. apply H. left. reflexivity.
  - intros Hin. apply H. right. exact Hin.
Qed.

Lemma run2_Inv2 : forall evs s, Inv2 s -> no_unlink evs -> Inv2 (run2 s evs).
Proof.
  induction evs as [|e r IH]; intros s H Hn; cbn; [assumption|].
  apply no_unlink_cons in Hn. destruct Hn as [He Hr].
  apply IH; [apply step2_Inv2; assumption|assumption].
Qed.

(* states reachable without unlink *)
Definition reachable2 (s : st2) : Prop := exists evs, no_unlink evs /\ s = run2 init2 evs.

Lemma reachable2_Inv2 : forall s, reachable2 s -> Inv2 s.
Proof. intros s (evs & Hn & ->). apply run2_Inv2; [apply Inv2_init|assumption]. Qed.

Lemma run2_app : forall a b s, run2 s (a ++ b) = run2 (run2 s a) b.
Proof. induction a as [|e a IH]; intros b s; cbn; [reflexivity|apply IH]. Qed.

Lemma no_unlink_app : forall a b, no_unlink a -> no_unlink b -> no_unlink (a ++ b).
Proof. unfold no_unlink. intros a b Ha Hb Hin. apply in_app_or in Hin. tauto. Qed.

Lemma reachable2_init : reachable2 init2.
Proof. exists []. split; [intros []|reflexivity]. Qed.

Lemma reachable2_step : forall s e, reachable2 s -> e <> E2Unlink -> reachable2 (fst (step2 s e)).
Proof.
  intros s e (evs & Hn & ->) He. exists (evs ++ [e]). split.
  - apply no_unlink_app; [assumption|]. intros [H|[]]. congruence.
  - rewrite run2_app. reflexivity.
Qed.

Lemma reachable2_run : forall evs s, reachable2 s -> no_unlink evs -> reachable2 (run2 s evs).
Proof.
  induction evs as [|e r IH]; intros s H Hn; cbn; [assumption|].
  apply no_unlink_cons in Hn. destruct Hn as [He Hr].
  apply IH; [apply reachable2_step; assumption|assumption].
Qed.

(* ------------------------------------------------------------------------------------------ *)
(* T1: exclusivity                                                                              *)
(* ------------------------------------------------------------------------------------------ *)
Lemma Inv2_exclusive : forall s, Inv2 s ->
  length (handles2 s) <= 1 /\
  (forall h, In h (handles2 s) ->
     name_ino s = Some (h2_ino h) /\ In (h2_ino h, h2_id h) (locks s)).
Proof.
  intros s H. destruct H; cbn; (split; [lia|]); intros h Hin; try contradiction.
  destruct Hin as [<-|[]]. cbn. auto.
Qed.

Theorem C11_exclusive_under_any_interleaving : forall evs, no_unlink evs ->
  length (handles2 (run2 init2 evs)) <= 1 /\
  (forall h, In h (handles2 (run2 init2 evs)) ->
     name_ino (run2 init2 evs) = Some (h2_ino h) /\
     In (h2_ino h, h2_id h) (locks (run2 init2 evs))).
Proof.
  intros evs Hn. apply Inv2_exclusive, run2_Inv2; [apply Inv2_init|assumption].
Qed.

(* further components of the invariant, for reachable states *)
Theorem C11_2_single_inode : forall s, reachable2 s ->
  (name_ino s = None \/ name_ino s = Some 0) /\ next_ino s <= 1 /\
  (forall p, In p (pend s) -> name_ino s = Some (p_ino p)) /\
  (forall l, In l (locks s) -> exists h, In h (handles2 s) /\ l = (h2_ino h, h2_id h)) /\
  length (locks s) = length (handles2 s) /\
  (forall h, In h (handles2 s) -> 1 <= h2_refs h /\ h2_id h < next_id2 s).
Proof.
  intros s R. apply reachable2_Inv2 in R.
  destruct R as [c d n|c ps n Hps|c ps n id pid r Hps Hr Hn]; cbn.
  - repeat split; auto; try lia; intros ? [].
  - repeat split; auto; try lia; try (intros ? []).
    intros p Hp. unfold pend_ok in Hps. rewrite Forall_forall in Hps. rewrite (Hps p Hp).
    reflexivity.
  - repeat split; auto; try lia.
    + intros p Hp. unfold pend_ok in Hps. rewrite Forall_forall in Hps. rewrite (Hps p Hp).
      reflexivity.
    + intros l [<-|[]]. eexists. split; [left; reflexivity|reflexivity].
    + destruct H as [<-|[]]. exact Hr.
    + destruct H as [<-|[]]. exact Hn.
Qed.

(* ------------------------------------------------------------------------------------------ *)
(* T2: who wins                                                                                 *)
(* ------------------------------------------------------------------------------------------ *)

(* (a) the second half of an open wins iff no handle is live at that moment *)
Theorem C11_2_lock_result : forall s tok p, reachable2 s ->
  find (fun q => Nat.eqb (p_tok q) tok) (pend s) = Some p ->
  snd (step2 s (E2Lock tok)) =
    match handles2 s with [] => ROpened (next_id2 s) | _ :: _ => RAlreadyOpened end.
Proof.
  intros s tok p R F. apply reachable2_Inv2 in R.
  destruct R as [c d n|c ps n Hps|c ps n id pid r Hps Hr Hn]; cbn in *.
  - discriminate.
  - rewrite F. rewrite (pend_ok_find _ _ _ Hps F). reflexivity.
  - rewrite F. rewrite (pend_ok_find _ _ _ Hps F). reflexivity.
Qed.

(* an E2Lock for a token that is not pending does nothing *)
Theorem C11_2_lock_not_pending : forall s tok,
  find (fun q => Nat.eqb (p_tok q) tok) (pend s) = None ->
  step2 s (E2Lock tok) = (s, RNone).
Proof. intros s tok F. cbn. rewrite F. reflexivity. Qed.

(* (b) likewise for the atomic open *)
Theorem C11_2_open_result : forall s pid, reachable2 s ->
  snd (step2 s (E2Open pid)) =
    match handles2 s with [] => ROpened (next_id2 s) | _ :: _ => RAlreadyOpened end.
Proof.
  intros s pid R. apply reachable2_Inv2 in R.
  destruct R as [c d n|c ps n Hps|c ps n id pid' r Hps Hr Hn]; reflexivity.
Qed.

(* the "iff" forms *)
Corollary C11_2_lock_loses_iff : forall s tok p, reachable2 s ->
  find (fun q => Nat.eqb (p_tok q) tok) (pend s) = Some p ->
  (snd (step2 s (E2Lock tok)) = RAlreadyOpened <-> handles2 s <> []) /\
  (snd (step2 s (E2Lock tok)) = ROpened (next_id2 s) <-> handles2 s = []).
Proof.
  intros s tok p R F. rewrite (C11_2_lock_result s tok p R F).
  destruct (handles2 s); repeat split; congruence.
Qed.

Corollary C11_2_open_loses_iff : forall s pid, reachable2 s ->
  (snd (step2 s (E2Open pid)) = RAlreadyOpened <-> handles2 s <> []) /\
  (snd (step2 s (E2Open pid)) = ROpened (next_id2 s) <-> handles2 s = []).
Proof.
  intros s pid R. rewrite (C11_2_open_result s pid R).
  destruct (handles2 s); repeat split; congruence.
Qed.

(* (c) a losing open changes nothing at all (the directories and the file exist already) *)
Theorem C11_2_losing_open_identity : forall s pid, reachable2 s ->
  handles2 s <> [] -> step2 s (E2Open pid) = (s, RAlreadyOpened).
Proof.
  intros s pid R H. apply reachable2_Inv2 in R.
  destruct R as [c d n|c ps n Hps|c ps n id pid' r Hps Hr Hn]; cbn in *; congruence.
Qed.

(* a losing second half only removes its pending entry *)
Theorem C11_2_losing_lock_state : forall s tok p, reachable2 s ->
  handles2 s <> [] ->
  find (fun q => Nat.eqb (p_tok q) tok) (pend s) = Some p ->
  step2 s (E2Lock tok) =
    (mkSt2 (name_ino s) (locks s) (content2 s) (dirs2 s) (handles2 s)
           (filter (fun q => negb (Nat.eqb (p_tok q) tok)) (pend s)) (next_id2 s) (next_ino s),
     RAlreadyOpened).
Proof.
  intros s tok p R H F. apply reachable2_Inv2 in R.
  destruct R as [c d n|c ps n Hps|c ps n id pid' r Hps Hr Hn]; cbn in *; try congruence.
  rewrite F. rewrite (pend_ok_find _ _ _ Hps F). reflexivity.
Qed.

(* noninterference of every loser, in one statement: whoever is told AlreadyOpened has changed
   neither the handles, nor the flocks, nor the contents, nor the binding of the name (nor the
   directories, nor the counters); only its own pending entry is gone *)
Theorem C11_2_loser_noninterference : forall s e, reachable2 s ->
  snd (step2 s e) = RAlreadyOpened ->
  let s' := fst (step2 s e) in
  handles2 s' = handles2 s /\ locks s' = locks s /\ content2 s' = content2 s /\
  name_ino s' = name_ino s /\ dirs2 s' = dirs2 s /\
  next_id2 s' = next_id2 s /\ next_ino s' = next_ino s /\
  (forall q, In q (pend s') -> In q (pend s)).
Proof.
  intros s e R Hres.
  destruct e as [p|tok p|tok|hid|hid|p|hid|]; cbn in Hres; try discriminate.
  2: { unfold open_fd in Hres. destruct (name_ino s); discriminate. }
  - (* E2Open *)
    pose proof (C11_2_open_result s p R) as E. cbn [step2] in E. rewrite Hres in E.
    destruct (handles2 s) eqn:Hh; [discriminate|].
    assert (Hne : handles2 s <> []) by (rewrite Hh; discriminate).
    rewrite (C11_2_losing_open_identity s p R Hne). cbn. rewrite Hh. repeat split; auto.
  - (* E2Lock *)
    destruct (find (fun q => Nat.eqb (p_tok q) tok) (pend s)) as [p0|] eqn:F; [|discriminate].
    pose proof (C11_2_lock_result s tok p0 R F) as E. cbn [step2] in E. rewrite F in E.
    rewrite Hres in E.
    destruct (handles2 s) eqn:Hh; [discriminate|].
    assert (Hne : handles2 s <> []) by (rewrite Hh; discriminate).
    rewrite (C11_2_losing_lock_state s tok p0 R Hne F). cbn. rewrite Hh. repeat split; auto.
    intros q Hq. apply filter_In in Hq. apply Hq.
  - destruct (find (has_id2 hid) (handles2 s)) as [h|]; [|discriminate].
    destruct (h2_refs h <=? 1); discriminate.
  - destruct (live2 hid (handles2 s)); discriminate.
Qed.

(* (d) the interleaving of the seeded defect.  B opens the file while h is live, h is dropped
   (last reference), C opens and wins, then B tries to lock the descriptor it got before the
   drop: it refers to the same inode as C's, so B loses. *)
Theorem C11_2_late_locker_loses : forall s h tokB pidB pidC, reachable2 s ->
  handles2 s = [h] -> h2_refs h = 1 ->
  results2_from s [E2OpenFd tokB pidB; E2Drop (h2_id h); E2Open pidC; E2Lock tokB]
    = [RNone; RNone; ROpened (next_id2 s); RAlreadyOpened].
Proof.
  intros s h tokB pidB pidC R Hh Hr. apply reachable2_Inv2 in R.
  destruct R as [c d n|c ps n Hps|c ps n id pid' r Hps Hr' Hn]; cbn in Hh; try discriminate.
  injection Hh as <-. cbn in Hr. subst r.
  cbn. unfold has_id2. cbn. rewrite ?Nat.eqb_refl. cbn.
  unfold has_id2. cbn. rewrite ?Nat.eqb_refl. cbn. rewrite ?Nat.eqb_refl. cbn.
  reflexivity.
Qed.

(* ... and C is then the only live handle, B's pending entry is gone *)
Theorem C11_2_late_locker_state : forall s h tokB pidB pidC, reachable2 s ->
  handles2 s = [h] -> h2_refs h = 1 ->
  let s' := run2 s [E2OpenFd tokB pidB; E2Drop (h2_id h); E2Open pidC; E2Lock tokB] in
  handles2 s' = [mkH2 (next_id2 s) pidC 1 0] /\ locks s' = [(0, next_id2 s)] /\
  pend s' = filter (fun q => negb (Nat.eqb (p_tok q) tokB)) (pend s).
Proof.
  intros s h tokB pidB pidC R Hh Hr. apply reachable2_Inv2 in R.
  destruct R as [c d n|c ps n Hps|c ps n id pid' r Hps Hr' Hn]; cbn in Hh; try discriminate.
  injection Hh as <-. cbn in Hr. subst r.
  cbn. unfold has_id2. cbn. rewrite ?Nat.eqb_refl. cbn.
  unfold has_id2. cbn. rewrite ?Nat.eqb_refl. cbn. rewrite ?Nat.eqb_refl. cbn.
  auto.
Qed.

(* ------------------------------------------------------------------------------------------ *)
(* T3: refinement of the atomic model                                                           *)
(* ------------------------------------------------------------------------------------------ *)
Definition abs_h (h : handle2) : handle := mkH (h2_id h) (h2_pid h) (h2_refs h).

(* the abstraction, meant for states reachable without unlink and without pending opens *)
Definition abs (s : st2) : st :=
  mkSt (mkDir (match handles2 s with [] => None | h :: _ => Some (h2_id h) end)
              (content2 s) (dirs2 s)
              (match name_ino s with Some _ => true | None => false end))
       (map abs_h (handles2 s)) (next_id2 s).

Lemma abs_init : abs init2 = init.
Proof. reflexivity. Qed.

Lemma embed_not_unlink : forall e, embed e <> E2Unlink.
Proof. destruct e; discriminate. Qed.

Lemma no_unlink_embed : forall evs, no_unlink (map embed evs).
Proof.
  unfold no_unlink. intros evs Hin. apply in_map_iff in Hin. destruct Hin as (e & He & _).
  exact (embed_not_unlink e He).
Qed.

(* one atomic event: the refined model does the same as the atomic one *)
Lemma abs_step : forall s e, Inv2 s -> pend s = [] ->
  step (abs s) e = (abs (fst (step2 s (embed e))), snd (step2 s (embed e))) /\
  pend (fst (step2 s (embed e))) = [].
Proof.
  intros s e H Hp.
  destruct H as [c d n|c ps n Hps|c ps n id pid r Hps Hr Hn]; cbn in Hp; subst;
    destruct e as [p|hid|hid|p|hid]; cbn; try (split; reflexivity).
  - (* held, clone *)
    unfold has_id, has_id2, abs, abs_h. cbn. destruct (Nat.eqb_spec id hid); cbn; auto.
  - (* held, drop *)
    unfold find_handle, has_id, has_id2. cbn. destruct (Nat.eqb_spec id hid); cbn; auto.
    destruct (Nat.leb_spec r 1); cbn.
    + unfold release, abs, has_id, has_id2. cbn. subst. rewrite ?Nat.eqb_refl. cbn. auto.
    + unfold abs, abs_h, has_id, has_id2. cbn. subst. rewrite ?Nat.eqb_refl. cbn. auto.
  - (* held, kill *)
    unfold release_pid, abs, has_id, has_pid, has_pid2. cbn. rewrite Nat.eqb_refl.
    destruct (Nat.eqb_spec pid p); cbn; auto.
  - (* held, op *)
    unfold live, has_id, has_id2. cbn. destruct (Nat.eqb_spec id hid); cbn; auto.
Qed.

Lemma abs_results_from : forall evs s, Inv2 s -> pend s = [] ->
  results2_from s (map embed evs) = results_from (abs s) evs /\
  abs (run2 s (map embed evs)) = run (abs s) evs /\
  pend (run2 s (map embed evs)) = [].
Proof.
  induction evs as [|e r IH]; intros s H Hp; cbn [map results2_from results_from run2 run];
    [auto|].
  destruct (abs_step s e H Hp) as [E Hp'].
  rewrite E. cbn [fst snd].
  destruct (IH (fst (step2 s (embed e)))) as (A & B & C);
    [apply step2_Inv2; [assumption|apply embed_not_unlink]|assumption|].
  rewrite A. auto.
Qed.

Theorem C11_2_refines_atomic : forall evs, results2 (map embed evs) = results evs.
Proof.
  intros evs. unfold results2, results. rewrite <- abs_init.
  apply abs_results_from; [apply Inv2_init|reflexivity].
Qed.

(* the states correspond too *)
Theorem C11_2_refines_atomic_state : forall evs,
  abs (run2 init2 (map embed evs)) = run init evs /\ pend (run2 init2 (map embed evs)) = [].
Proof.
  intros evs. rewrite <- abs_init.
  destruct (abs_results_from evs init2 Inv2_init eq_refl) as (_ & A & B). auto.
Qed.

(* ------------------------------------------------------------------------------------------ *)
(* T4: why the name must never be unlinked                                                      *)
(* ------------------------------------------------------------------------------------------ *)
Definition unlink_evs : list ev2 :=
  [E2Open 1; E2OpenFd 7 2; E2Drop 0; E2Unlink; E2Lock 7; E2Open 3].

(* B (token 7) locks the old, unlinked inode 0; C creates and locks the new inode 1 *)
Example C11_2_unlink_breaks_exclusivity :
  length (handles2 (run2 init2 unlink_evs)) = 2 /\
  handles2 (run2 init2 unlink_evs) = [mkH2 2 3 1 1; mkH2 1 2 1 0] /\
  locks (run2 init2 unlink_evs) = [(1, 2); (0, 1)] /\
  results2 unlink_evs = [ROpened 0; RNone; RNone; RNone; ROpened 1; ROpened 2].
Proof. vm_compute. repeat split; reflexivity. Qed.

(* the same events without the unlink: C loses *)
Example C11_2_without_unlink :
  results2 [E2Open 1; E2OpenFd 7 2; E2Drop 0; E2Lock 7; E2Open 3]
    = [ROpened 0; RNone; RNone; ROpened 1; RAlreadyOpened] /\
  length (handles2 (run2 init2 [E2Open 1; E2OpenFd 7 2; E2Drop 0; E2Lock 7; E2Open 3])) = 1.
Proof. vm_compute. split; reflexivity. Qed.

(* ------------------------------------------------------------------------------------------ *)
(* T5: the name stays bound                                                                     *)
(* ------------------------------------------------------------------------------------------ *)
Definition is_open (e : ev2) : bool :=
  match e with E2Open _ | E2OpenFd _ _ => true | _ => false end.

Definition bound (s : st2) : bool := match name_ino s with Some _ => true | None => false end.

Lemma open_binds : forall s e, is_open e = true -> bound (fst (step2 s e)) = true.
Proof.
  intros s e H. destruct e; try discriminate; unfold bound; cbn.
  - unfold open_fd, try_lock. destruct (name_ino s); cbn -[locked];
      destruct (locked _ _); reflexivity.
  - unfold open_fd. destruct (name_ino s); reflexivity.
Qed.

Lemma step2_keeps_bound : forall s e, e <> E2Unlink -> bound s = true ->
  bound (fst (step2 s e)) = true.
Proof.
  intros s e He H. destruct (is_open e) eqn:O; [apply open_binds, O|].
  unfold bound in *. destruct e; try discriminate; try congruence; cbn.
  - destruct (find _ (pend s)); [|exact H]. unfold try_lock. cbn -[locked].
    destruct (locked _ _); exact H.
  - exact H.
  - destruct (find _ (handles2 s)); [|exact H].
    destruct (Nat.leb _ _); exact H.
  - exact H.
  - destruct (live2 _ _); exact H.
Qed.

Lemma lockfile_from_bound : forall evs s, no_unlink evs -> bound s = true ->
  lockfile_from s evs = repeat true (length evs).
Proof.
  induction evs as [|e r IH]; intros s Hn H; cbn [lockfile_from length repeat]; [reflexivity|].
  apply no_unlink_cons in Hn. destruct Hn as [He Hr].
  pose proof (step2_keeps_bound s e He H) as H'. cbn zeta.
  fold (bound (fst (step2 s e))). rewrite H'. f_equal. apply IH; assumption.
Qed.

Lemma lockfile_from_app : forall a b s,
  lockfile_from s (a ++ b) = lockfile_from s a ++ lockfile_from (run2 s a) b.
Proof.
  induction a as [|e a IH]; intros b s; [reflexivity|].
  cbn [app lockfile_from run2]. cbn zeta. rewrite IH. reflexivity.
Qed.

Lemma lockfile_from_length : forall evs s, length (lockfile_from s evs) = length evs.
Proof.
  induction evs as [|e r IH]; intros s; [reflexivity|].
  cbn [lockfile_from length]. cbn zeta. cbn [length]. rewrite IH. reflexivity.
Qed.

(* from an open-ish event on (inclusive) every observation of the name is "bound", provided no
   unlink happens from there on (what happened before does not matter, from any state) *)
Theorem C11_2_lockfile_stays_from : forall s pre e post,
  is_open e = true -> no_unlink post ->
  lockfile_from s (pre ++ e :: post) = lockfile_from s pre ++ repeat true (S (length post)).
Proof.
  intros s pre e post He Hn. rewrite lockfile_from_app. f_equal.
  cbn [lockfile_from repeat]. cbn zeta.
  pose proof (open_binds (run2 s pre) e He) as H. unfold bound in H at 1.
  rewrite H. f_equal. apply lockfile_from_bound; assumption.
Qed.

Theorem C11_2_lockfile_stays : forall pre e post,
  no_unlink (pre ++ e :: post) -> is_open e = true ->
  forall k, length pre <= k ->
    nth_error (lockfile_from init2 (pre ++ e :: post)) k = None \/
    nth_error (lockfile_from init2 (pre ++ e :: post)) k = Some true.
Proof.
  intros pre e post Hn He k Hk.
  assert (Hp : no_unlink post).
  { intros Hin. apply Hn. apply in_or_app. right. right. exact Hin. }
  rewrite (C11_2_lockfile_stays_from init2 pre e post He Hp).
  rewrite nth_error_app2; rewrite lockfile_from_length; [|exact Hk].
  remember (k - length pre) as j. clear.
  destruct (nth_error (repeat true (S (length post))) j) as [b|] eqn:E; [|left; reflexivity].
  right. apply nth_error_In in E. apply repeat_spec in E. subst. reflexivity.
Qed.

(* before the first open-ish event the name is not bound *)
Theorem C11_2_lockfile_before_first_open : forall pre,
  (forall e, In e pre -> is_open e = false) ->
  lockfile_from init2 pre = repeat false (length pre).
Proof.
  assert (G : forall pre c d n,
    (forall e, In e pre -> is_open e = false) ->
    lockfile_from (mkSt2 None [] c d [] [] n 0) pre = repeat false (length pre)).
  { induction pre as [|e r IH]; intros c d n H; [reflexivity|].
    assert (He : is_open e = false) by (apply H; left; reflexivity).
    assert (Hr : forall x, In x r -> is_open x = false) by (intros x Hx; apply H; right; exact Hx).
    cbn [lockfile_from length repeat]. cbn zeta.
    destruct e; try discriminate; cbn; f_equal; apply IH; exact Hr. }
  intros pre H. apply G, H.
Qed.

Print Assumptions C11_exclusive_under_any_interleaving.
Print Assumptions C11_2_single_inode.
Print Assumptions C11_2_lock_result.
Print Assumptions C11_2_open_result.
Print Assumptions C11_2_lock_loses_iff.
Print Assumptions C11_2_open_loses_iff.
Print Assumptions C11_2_losing_open_identity.
Print Assumptions C11_2_losing_lock_state.
Print Assumptions C11_2_loser_noninterference.
Print Assumptions C11_2_late_locker_loses.
Print Assumptions C11_2_late_locker_state.
Print Assumptions C11_2_refines_atomic.
Print Assumptions C11_2_refines_atomic_state.
Print Assumptions C11_2_unlink_breaks_exclusivity.
Print Assumptions C11_2_lockfile_stays_from.
Print Assumptions C11_2_lockfile_stays.
Print Assumptions C11_2_lockfile_before_first_open.
