(* RangeProofs.v -- get_range / read_blob_range / read_loop (theories/Range.v) return exactly
   the bytes [min s L, min e L) of the blob, for every short-read behaviour [chunk]. *)
From Cas Require Import Base Range.
From Coq Require Import ZifyBool ZifyNat ZifyN.
Arguments N.add : simpl never.
Arguments N.sub : simpl never.
Arguments N.mul : simpl never.
Arguments N.div : simpl never.
Arguments N.modulo : simpl never.
Arguments N.eqb : simpl never.
Arguments N.ltb : simpl never.
Arguments N.leb : simpl never.
Arguments N.pow : simpl never.
Arguments N.min : simpl never.
Arguments N.max : simpl never.
Open Scope N_scope.

(* ------------------------------------------------------------------ *)
(* list helpers                                                        *)
(* ------------------------------------------------------------------ *)

Lemma skipn_skipn_add {A} (x y : nat) (l : list A) :
  skipn x (skipn y l) = skipn (y + x) l.
Proof.
  revert l; induction y as [|y IH]; intro l; [reflexivity|].
  destruct l as [|a l]; cbn [skipn Nat.add].
  - now rewrite skipn_nil.
  - apply IH.
Qed.

(* one (possibly short) read of [m <= r] bytes followed by reading the rest *)
Lemma firstn_step {A} : forall (t : list A) (m r : nat),
  (m <= r)%nat ->
  firstn m t ++ firstn (r - length (firstn m t)) (skipn (length (firstn m t)) t)
  = firstn r t.
Proof.
  induction t as [|x t IH]; intros m r H.
  - destruct m; destruct r; reflexivity.
  - destruct m as [|m].
    + cbn [firstn length skipn app]. now rewrite Nat.sub_0_r.
    + destruct r as [|r]; [lia|].
      cbn [firstn length skipn app Nat.sub]. f_equal. apply IH. lia.
Qed.

Lemma firstn_pos_nil {A} : forall (t : list A) (m : nat),
  (1 <= m)%nat -> firstn m t = [] -> t = [].
Proof.
  intros t m H E. destruct t as [|x t]; [reflexivity|].
  destruct m as [|m]; [lia|]. discriminate.
Qed.

(* ------------------------------------------------------------------ *)
(* R4. the specification                                               *)
(* ------------------------------------------------------------------ *)

Lemma slice_spec : forall (content : bytes) s e,
  slice content s e =
  firstn (N.to_nat (N.min e (len content) - N.min s (len content)))
         (skipn (N.to_nat (N.min s (len content))) content).
Proof. reflexivity. Qed.

(* holds for all s e; when e < s both sides are 0 *)
Lemma slice_length : forall (content : bytes) s e,
  length (slice content s e)
  = N.to_nat (N.min e (len content) - N.min s (len content)).
Proof.
  intros content s e. rewrite slice_spec, firstn_length, skipn_length.
  unfold len. lia.
Qed.

Lemma slice_length_le : forall (content : bytes) s e,
  s <= e ->
  length (slice content s e)
  = N.to_nat (N.min e (len content) - N.min s (len content)).
Proof. intros content s e _. apply slice_length. Qed.

Lemma slice_inside : forall (content : bytes) s e,
  s <= e -> e <= len content ->
  slice content s e = firstn (N.to_nat (e - s)) (skipn (N.to_nat s) content).
Proof.
  intros content s e H1 H2. rewrite slice_spec.
  rewrite (N.min_l e), (N.min_l s) by lia. reflexivity.
Qed.

Lemma slice_beyond : forall (content : bytes) s e,
  len content <= s -> slice content s e = [].
Proof.
  intros content s e H. rewrite slice_spec.
  replace (N.min e (len content) - N.min s (len content)) with 0 by lia.
  reflexivity.
Qed.

(* ------------------------------------------------------------------ *)
(* R1. the read loop                                                   *)
(* ------------------------------------------------------------------ *)

Section Proofs.
  Variable chunk : N -> N -> N.

  (* a single read_at returns a prefix of what is available, non-empty unless nothing is *)
  Lemma read_at_eq : forall (file : bytes) off want,
    read_at chunk file off want =
    firstn (Nat.min (N.to_nat (N.max 1 (chunk off want))) (N.to_nat want))
           (skipn (N.to_nat off) file).
  Proof. intros file off want. unfold read_at. cbv zeta. apply firstn_firstn. Qed.

  (* fuel >= remaining suffices: every iteration that does not stop consumes >= 1 byte *)
  Theorem read_loop_spec : forall fuel (file : bytes) off remaining acc,
    (N.to_nat remaining <= fuel)%nat ->
    read_loop chunk fuel file off remaining acc
    = acc ++ firstn (N.to_nat remaining) (skipn (N.to_nat off) file).
  Proof.
    induction fuel as [|fuel IH]; intros file off remaining acc Hf.
    - cbn [read_loop]. replace (N.to_nat remaining) with 0%nat by lia.
      cbn [firstn]. now rewrite app_nil_r.
    - cbn [read_loop]. destruct (N.eqb_spec remaining 0) as [E|E].
      + subst. cbn [N.to_nat firstn]. now rewrite app_nil_r.
      + cbv zeta. rewrite read_at_eq.
        set (t := skipn (N.to_nat off) file).
        set (m := Nat.min (N.to_nat (N.max 1 (chunk off remaining))) (N.to_nat remaining)).
        assert (Hm1 : (1 <= m)%nat) by (unfold m; lia).
        assert (Hm2 : (m <= N.to_nat remaining)%nat) by (unfold m; lia).
        destruct (firstn m t) as [|g0 gs] eqn:G.
        * apply firstn_pos_nil in G; [|exact Hm1]. rewrite G, firstn_nil.
          now rewrite app_nil_r.
        * assert (Hg1 : (1 <= length (firstn m t))%nat) by (rewrite G; cbn [length]; lia).
          rewrite <- G.
          assert (Hg : (length (firstn m t) <= m)%nat) by apply firstn_le_length.
          rewrite IH by (unfold len; lia).
          rewrite <- app_assoc. f_equal.
          unfold len.
          replace (N.to_nat (remaining - N.of_nat (length (firstn m t))))
            with (N.to_nat remaining - length (firstn m t))%nat by lia.
          replace (N.to_nat (off + N.of_nat (length (firstn m t))))
            with (N.to_nat off + length (firstn m t))%nat by lia.
          rewrite <- skipn_skipn_add. fold t.
          apply firstn_step. exact Hm2.
  Qed.

  (* the statement with strict fuel, as used by read_blob_range *)
  Corollary read_loop_spec_lt : forall fuel (file : bytes) off remaining acc,
    (N.to_nat remaining < fuel)%nat ->
    read_loop chunk fuel file off remaining acc
    = acc ++ firstn (N.to_nat remaining) (skipn (N.to_nat off) file).
  Proof. intros. apply read_loop_spec. lia. Qed.

  (* ---------------------------------------------------------------- *)
  (* read_blob_range                                                    *)
  (* ---------------------------------------------------------------- *)

  Lemma read_blob_range_ok : forall (file : bytes) s e,
    s <= e ->
    read_blob_range chunk file s e
    = (RBytes (firstn (N.to_nat (e - s)) (skipn (N.to_nat s) file)), e - s).
  Proof.
    intros file s e H. unfold read_blob_range.
    assert (E1 : (e <? s) = false) by lia. rewrite E1. cbv zeta.
    destruct (N.eqb_spec (e - s) 0) as [E|E].
    - rewrite E. reflexivity.
    - rewrite read_loop_spec by lia. reflexivity.
  Qed.

  Lemma read_blob_range_invalid : forall (file : bytes) s e,
    e < s -> read_blob_range chunk file s e = (RInvalidRange, 0).
  Proof.
    intros file s e H. unfold read_blob_range.
    assert (E1 : (e <? s) = true) by lia. now rewrite E1.
  Qed.

  (* ---------------------------------------------------------------- *)
  (* R5. recorded size may be smaller than the file                     *)
  (* ---------------------------------------------------------------- *)

  Theorem get_range_isize_full : forall isize (file : bytes) s e,
    isize <= len file -> s <= e ->
    get_range chunk isize file s e
    = (RBytes (slice (firstn (N.to_nat isize) file) s e),
       if isize <=? s then 0 else N.min e isize - s).
  Proof.
    intros isize file s e Hi Hse. unfold get_range.
    assert (Hl : len (firstn (N.to_nat isize) file) = isize).
    { unfold len in *. rewrite firstn_length. lia. }
    destruct (N.leb_spec isize s) as [L|L].
    - rewrite slice_beyond by (rewrite Hl; exact L). reflexivity.
    - rewrite read_blob_range_ok by lia. f_equal. f_equal.
      rewrite slice_spec, Hl, (N.min_l s isize) by lia.
      rewrite skipn_firstn_comm, firstn_firstn. f_equal. lia.
  Qed.

  Theorem get_range_isize : forall isize (file : bytes) s e,
    isize <= len file -> s <= e ->
    fst (get_range chunk isize file s e)
    = RBytes (slice (firstn (N.to_nat isize) file) s e).
  Proof.
    intros isize file s e Hi Hse. now rewrite get_range_isize_full.
  Qed.

  (* ---------------------------------------------------------------- *)
  (* R2. C17: a well-formed range returns exactly the slice             *)
  (* ---------------------------------------------------------------- *)

  Theorem C17_range_full : forall (content : bytes) s e,
    s <= e ->
    get_range chunk (len content) content s e
    = (RBytes (slice content s e),
       if len content <=? s then 0 else N.min e (len content) - s).
  Proof.
    intros content s e H.
    rewrite get_range_isize_full by lia.
    unfold len. rewrite Nat2N.id, firstn_all. reflexivity.
  Qed.

  Theorem C17_range : forall (content : bytes) s e,
    let L := len content in
    s <= e ->
    exists alloc,
      get_range chunk L content s e = (RBytes (slice content s e), alloc) /\
      alloc <= L /\ (alloc = 0 \/ alloc = N.min e L - s).
  Proof.
    intros content s e L H. subst L.
    exists (if len content <=? s then 0 else N.min e (len content) - s).
    split; [now apply C17_range_full|].
    destruct (N.leb_spec (len content) s); lia.
  Qed.

  (* the allocation request never exceeds the number of bytes returned ... and equals it *)
  Corollary C17_alloc_exact : forall (content : bytes) s e,
    s <= e ->
    snd (get_range chunk (len content) content s e)
    = N.of_nat (length (slice content s e)).
  Proof.
    intros content s e H. rewrite C17_range_full by exact H. cbn [snd].
    rewrite slice_length. destruct (N.leb_spec (len content) s); lia.
  Qed.

  (* ---------------------------------------------------------------- *)
  (* R3. C17: inverted ranges                                           *)
  (* ---------------------------------------------------------------- *)

  Theorem C17_reject : forall (content : bytes) s e,
    e < s -> s < len content ->
    fst (get_range chunk (len content) content s e) = RInvalidRange.
  Proof.
    intros content s e H1 H2. unfold get_range.
    assert (E : (len content <=? s) = false) by lia. rewrite E.
    rewrite read_blob_range_invalid by lia. reflexivity.
  Qed.

  Theorem C17_reject_full : forall (content : bytes) s e,
    e < s -> s < len content ->
    get_range chunk (len content) content s e = (RInvalidRange, 0).
  Proof.
    intros content s e H1 H2. unfold get_range.
    assert (E : (len content <=? s) = false) by lia. rewrite E.
    now rewrite read_blob_range_invalid by lia.
  Qed.

  (* an inverted range that starts at or after the end is NOT rejected: empty result *)
  Theorem C17_inverted_beyond : forall (content : bytes) s e,
    e < s -> len content <= s ->
    get_range chunk (len content) content s e = (RBytes [], 0).
  Proof.
    intros content s e H1 H2. unfold get_range.
    assert (E : (len content <=? s) = true) by lia. now rewrite E.
  Qed.

  (* complete case analysis of get_range on a consistent blob *)
  Theorem C17_total : forall (content : bytes) s e,
    fst (get_range chunk (len content) content s e)
    = if (e <? s) && (s <? len content) then RInvalidRange
      else RBytes (slice content s e).
  Proof.
    intros content s e.
    destruct (N.ltb_spec e s) as [H1|H1]; cbn [andb].
    - destruct (N.ltb_spec s (len content)) as [H2|H2].
      + now apply C17_reject.
      + rewrite C17_inverted_beyond, slice_beyond by assumption. reflexivity.
    - now rewrite C17_range_full.
  Qed.
End Proofs.

(* ------------------------------------------------------------------ *)
(* R6. concrete examples                                               *)
(* ------------------------------------------------------------------ *)

Example range_ex1 :
  get_range (fun _ _ => 2) 5 [1;2;3;4;5] 1 10 = (RBytes [2;3;4;5], 4).
Proof. vm_compute. reflexivity. Qed.

Example range_ex2 :   (* kernel returns 1 byte at a time, even when asked for "0" *)
  get_range (fun _ _ => 0) 5 [1;2;3;4;5] 1 4 = (RBytes [2;3;4], 3).
Proof. vm_compute. reflexivity. Qed.

Example range_ex3 :   (* inverted range inside the blob *)
  get_range (fun _ _ => 2) 5 [1;2;3;4;5] 3 1 = (RInvalidRange, 0).
Proof. vm_compute. reflexivity. Qed.

Example range_ex4 :   (* inverted range starting beyond the end: empty, not rejected *)
  get_range (fun _ _ => 2) 5 [1;2;3;4;5] 7 1 = (RBytes [], 0).
Proof. vm_compute. reflexivity. Qed.

Example range_ex5 :   (* offset-dependent short reads *)
  get_range (fun off want => if N.even off then 3 else 1) 7 [10;20;30;40;50;60;70] 2 100
  = (RBytes [30;40;50;60;70], 5).
Proof. vm_compute. reflexivity. Qed.

Example slice_ex : slice [1;2;3;4;5] 1 10 = [2;3;4;5].
Proof. vm_compute. reflexivity. Qed.

Print Assumptions read_loop_spec.
Print Assumptions C17_range.
Print Assumptions C17_range_full.
Print Assumptions C17_alloc_exact.
Print Assumptions C17_reject.
Print Assumptions C17_inverted_beyond.
Print Assumptions C17_total.
Print Assumptions slice_length.
Print Assumptions get_range_isize.
Print Assumptions range_ex1.
