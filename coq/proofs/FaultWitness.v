(* FaultWitness.v -- C14 (a failed I/O call is contained to the operation that hit it) is FALSE
   for the model once a reopen is part of the history: known finding F4, by computation.

   When the WAL append (or the WAL fdatasync) of an operation fails, the operation returns an
   error and the in-memory index is unchanged -- but the record stays in the segment writer's
   BufWriter (model: writer (mwal m) = Some (seg, buf) with buf <> []), resp. in the file, and
   becomes durable with the next append or on close.  If the blob the record names is reclaimed
   afterwards, a later open replays a Put whose blob is missing.

   The history (toy hash, num_ops_per_wal = 8, sync mode, orphan scan + integrity gate on):
       open ; put kB X ; put kA X  <- EIO at the WAL append ; remove kB ; close ; open
   put kA fails (Err EWalIo) and a read of kA still answers "absent"; remove kB succeeds and
   reclaims blob X (its only reference in memory); the reopen replays  Put kB X, Put kA X,
   Remove kB  and finds kA -> X without blob X.  The result is neither "put kA happened"
   (get kA would return X) nor "put kA did not happen" (the reopen would succeed, kA absent). *)
From Cas Require Import History.
From CasProofs Require Import StoreHist.
Open Scope N_scope.

Definition cfgK : config := mkConfig KBytes 8 true false true false true.
Definition kA : bytes := [1].
Definition kB : bytes := [2].
Definition cX : bytes := [10; 11; 12].

Definition opsK (gate : bool) : list op :=
  [OpOpen cfgK false; OpPut kB [cX]; OpPut kA [cX]; OpGet kA; OpRemove kB; OpClose;
   OpOpen cfgK gate].

(* the injected fault hit an append to / an fdatasync of a WAL segment *)
Definition fault_hits_wal_append (w : world) : Prop :=
  existsb (fun e => match e with TFault (CAppend (PWal _) _) => true | _ => false end) (wtrace w) = true.
Definition fault_hits_wal_sync (w : world) : Prop :=
  existsb (fun e => match e with TFault (CSync (PWal _)) => true | _ => false end) (wtrace w) = true.

Definition outs_of (r : list out * option handle * world) : list out := fst (fst r).
Definition world_of (r : list out * option handle * world) : world := snd r.

(* K1: the integrity gate of the reopen rejects the database *)
Theorem C14_refuted_on_known_class :
  exists n ops,
    let r := run_hist toyH empty_fs (Some n) ops in
    fault_hits_wal_append (world_of r) /\ last (outs_of r) OutUnit = OutErr EIntegrity.
Proof. exists 22%nat, (opsK true). vm_compute. split; reflexivity. Qed.

(* the whole output sequence: the failed put reports EWalIo, the read after it says "absent",
   everything else succeeds, the reopen fails *)
Example refutation_outputs :
  tl (outs_of (run_hist toyH empty_fs (Some 22%nat) (opsK true)))
  = [OutUnit; OutErr EWalIo; OutBytes None; OutBool true; OutUnit; OutErr EIntegrity].
Proof. vm_compute. reflexivity. Qed.

(* the same with the fault at the fdatasync of the segment instead of the append *)
Theorem C14_refuted_on_wal_sync :
  let r := run_hist toyH empty_fs (Some 23%nat) (opsK true) in
  fault_hits_wal_sync (world_of r) /\ last (outs_of r) OutUnit = OutErr EIntegrity.
Proof. vm_compute. split; reflexivity. Qed.

(* without the gate (open_with_recover): the open succeeds, reports the blob as missing, and
   kA is a key whose value cannot be read *)
Theorem C14_refuted_blob_missing :
  let r := run_hist toyH empty_fs (Some 22%nat) (opsK false ++ [OpGet kA; OpGetSize kA]) in
  fault_hits_wal_append (world_of r) /\
  (exists o, nth 6 (outs_of r) OutUnit = OutOpened (Some o) /\ o_missing o = [toyH cX]) /\
  nth 7 (outs_of r) OutUnit = OutErr EBlobMissing /\
  nth 8 (outs_of r) OutUnit = OutSize (Some 3).
Proof.
  vm_compute. split; [reflexivity|]. split; [|split; reflexivity].
  eexists. split; reflexivity.
Qed.

(* control: without a fault the same history reopens cleanly, kA holds X *)
Example no_fault_control :
  let r := run_hist toyH empty_fs None (opsK true ++ [OpGet kA]) in
  (exists o, nth 6 (outs_of r) OutUnit = OutOpened (Some o) /\ o_missing o = []) /\
  nth 7 (outs_of r) OutUnit = OutBytes (Some cX).
Proof. vm_compute. split; [|reflexivity]. eexists. split; reflexivity. Qed.

(* control: if put kA is left out altogether ("did not happen") the reopen succeeds as well *)
Example not_done_control :
  let r := run_hist toyH empty_fs None
             [OpOpen cfgK false; OpPut kB [cX]; OpRemove kB; OpClose; OpOpen cfgK true; OpGet kA] in
  (exists o, nth 4 (outs_of r) OutUnit = OutOpened (Some o) /\ o_missing o = []) /\
  nth 5 (outs_of r) OutUnit = OutBytes None.
Proof. vm_compute. split; [|reflexivity]. eexists. split; reflexivity. Qed.

(* the mechanism: after the failed put the record sits in the writer's buffer *)
Example record_left_in_buffer :
  match snd (fst (run_hist toyH empty_fs (Some 22%nat)
                    [OpOpen cfgK false; OpPut kB [cX]; OpPut kA [cX]])) with
  | Some h => match writer (mwal (h_mem h)) with
              | Some (_, buf) => negb (len buf =? 0) && (nextv (mwal (h_mem h)) =? 3)
              | None => false
              end
  | None => false
  end = true.
Proof. vm_compute. reflexivity. Qed.

Print Assumptions C14_refuted_on_known_class.
Print Assumptions C14_refuted_on_wal_sync.
Print Assumptions C14_refuted_blob_missing.
