(* ConcProgress.v -- C15, progress: every step of every thread strictly decreases the thread's
   own measure [work], so every schedule performs at most [total_work] steps and (with
   deadlock freedom) every program can be run to completion from every reachable state.
   (Since the read retry happens under the state lock there is no retry edge any more:
   GReread -> GOpenL -> finish.)  A get_range costs what a get costs (its pre-open exits only
   shorten it); an iteration is two steps (take the call, read under the guard: IRead).

     work B ts            per-thread measure (B bounds the number of indexed keys: the number
                          of KPut calls of the programs, KmBound / km_bound)
     C15_progress_thread  every step of a thread decreases its work and changes no other thread
     C15_potential_decreases   potential g = sum of work over the threads; decreases with every step
     C15_progress         number of steps of any schedule <= total_work
     C15_calls_complete   from every reachable state some schedule finishes all threads
     C15_stuck_is_finished  a state where nothing is enabled has all threads finished

   All of this holds for ARBITRARY fault parameters bad / ckbad: the error exits only shorten a
   call (PRen -> PDropI -> return instead of the 8 remaining steps of a put; WUnlink -> return),
   so the measure and the bound total_work are unchanged. *)
From Cas Require Import Base Codec SMap Index Conc.
From CasProofs Require Import SMapProofs IndexProofs ConcInv ConcProofs.
From Coq Require Import List NArith Lia Bool Arith.
Import ListNotations.
Open Scope nat_scope.

Local Notation LX L := (L lex_cmp lex_refl lex_eq lex_antisym lex_trans) (only parsing).

(* ---- sums over the thread table ---- *)
Fixpoint tsum (f : tstate -> nat) (l : list (nat * tstate)) : nat :=
  match l with [] => 0 | (_, s) :: r => f s + tsum f r end.

Lemma tsum_tset f l t s s' :
  tget l t = Some s -> tsum f (tset l t s') + f s = tsum f l + f s'.
Proof.
  induction l as [|[v x] r IH]; cbn [tget tset tsum]; [discriminate|].
  destruct (Nat.eqb t v) eqn:E; cbn [tsum].
  - intros G; inversion G; subst. lia.
  - intros G. specialize (IH G). lia.
Qed.

Lemma tsum_le f g l : (forall s, f s <= g s) -> tsum f l <= tsum g l.
Proof.
  intros A. induction l as [|[v x] r IH]; cbn [tsum]; [lia|]. specialize (A x). lia.
Qed.

Lemma tsum_const c l : tsum (fun _ => c) l = c * length l.
Proof. induction l as [|[v x] r IH]; cbn [tsum length]; lia. Qed.

Lemma length_tset l t s s0 : tget l t = Some s0 -> length (tset l t s) = length l.
Proof.
  induction l as [|[v x] r IH]; cbn [tget tset length]; [discriminate|].
  destruct (Nat.eqb t v); cbn [length]; [reflexivity|]. intros G. rewrite (IH G). reflexivity.
Qed.

(* ---- the measures ---- *)
Definition wsize (w : wkind) : nat :=
  match w with WPut _ _ _ => 1 | WRm ks _ => length ks end.

Definition pc_work (B : nat) (p : pc) : nat :=
  match p with
  | Idle => 0
  | PReg _ _ => 11 | PILock _ _ => 10 | PRen _ _ _ => 9 | PDropI _ _ _ => 8
  | WLockI w => 7 + wsize w | WLockS w => 6 + wsize w | WLockW w => 5 + wsize w
  | WApplied _ un _ => 4 + length un
  | WUnlink _ todo _ => 3 + length todo
  | WReleased _ _ => 3 | WCkS _ _ => 2 | WCkW _ _ => 1
  | RRead _ => 10 | RScanned _ => 9
  | RRRead _ _ => 9 + B | RRScanned ks => 8 + length ks
  | GRead _ _ => 5 | GLooked _ _ _ => 4 | GOpen _ _ _ => 3 | GReread _ _ _ => 2 | GOpenL _ _ _ => 1
  | IRead => 1
  | OLockI todo _ _ => 1 + 3 * length todo
  | ORead _ rest _ _ => 3 + 3 * length rest
  | OUnlink _ rest _ _ => 2 + 3 * length rest
  end.

Definition call_work (B : nat) (c : ccall) : nat :=
  match c with
  | KPut _ _ => 12 | KAbort _ _ => 1 | KRemove _ => 11 | KRemoveRange _ _ => 10 + B
  | KGet _ | KGetSize _ | KGetRange _ _ _ => 6 | KIter => 2 | KCheckpoint => 3
  | KDelOrphans hs => 2 + 3 * length hs
  end.

Fixpoint calls_work (B : nat) (cs : list ccall) : nat :=
  match cs with [] => 0 | c :: r => call_work B c + calls_work B r end.

Definition work (B : nat) (ts : tstate) : nat := calls_work B (t_calls ts) + pc_work B (t_pc ts).

(* pending puts: what can still add a key *)
Definition pc_put (p : pc) : nat :=
  match p with
  | PReg _ _ | PILock _ _ | PRen _ _ _
  | WLockI (WPut _ _ _) | WLockS (WPut _ _ _) | WLockW (WPut _ _ _) => 1
  | _ => 0
  end.
Definition pp (ts : tstate) : nat :=
  length (flat_map call_contents (t_calls ts)) + pc_put (t_pc ts).

(* ---- sizes of what apply_op reports ---- *)
Lemma do_dec_len s h sz acc s' acc' :
  do_dec s h sz acc = Ok (s', acc') -> length acc' <= length acc + 1.
Proof.
  unfold do_dec. destruct (dec_ref (rc s) h) as [[r b]|e]; cbn [rbind]; [|discriminate].
  destruct b.
  - destruct (sub_stats (set_rc s r) sz); cbn [rbind]; [|discriminate].
    intros E; inversion E; subst. rewrite app_length. cbn [length]. lia.
  - intros E; inversion E; subst. lia.
Qed.

Lemma apply_remove_len cmp ks : forall s acc s' acc',
  apply_remove cmp s ks acc = Ok (s', acc') -> length acc' <= length acc + length ks.
Proof.
  induction ks as [|k ks IH]; intros s acc s' acc'; cbn [apply_remove length].
  - intros E; inversion E; subst. lia.
  - destruct (sm_get cmp (km s) k) as [it|].
    + destruct (do_dec _ _ _ _) as [[s1 acc1]|e] eqn:E1; cbn [rbind]; [|discriminate].
      apply do_dec_len in E1. intros E. apply IH in E. lia.
    + intros E. apply IH in E. lia.
Qed.

Lemma apply_un_len cmp s w s' un :
  apply_op cmp s (wop w) = Ok (s', un) -> length un <= wsize w.
Proof.
  destruct w as [k h sz|ks r]; cbn [wop apply_op wsize].
  - unfold apply_put. destruct (sm_get cmp (km s) k) as [p|].
    + destruct (beqb (ihash p) h).
      * destruct (isize p =? sz)%N; [|discriminate]. intros E; inversion E; subst. cbn. lia.
      * destruct (do_dec _ _ _ _) as [[s1 un1]|e] eqn:E1; cbn [rbind]; [|discriminate].
        apply do_dec_len in E1. intros E; inversion E; subst. cbn [length] in E1. lia.
    + intros E; inversion E; subst. cbn. lia.
  - intros E. apply apply_remove_len in E. cbn [length] in E. lia.
Qed.

Lemma filter_len {A} (f : A -> bool) l : length (filter f l) <= length l.
Proof. induction l as [|a l IH]; cbn [filter length]; [lia|]. destruct (f a); cbn [length]; lia. Qed.

Lemma keys_in_len cmp (m : smap item) lo hi : length (keys_in cmp m lo hi) <= length m.
Proof. unfold keys_in. rewrite map_length. apply filter_len. Qed.

Lemma ins_len {V} cmp (m : smap V) k v : length (sm_ins cmp m k v) <= S (length m).
Proof.
  induction m as [|[k1 v1] r IH]; cbn [sm_ins length]; [lia|].
  destruct (cmp k k1); cbn [length]; lia.
Qed.

Lemma del_len {V} cmp (m : smap V) k : length (sm_del cmp m k) <= length m.
Proof.
  induction m as [|[k1 v1] r IH]; cbn [sm_del length]; [lia|].
  destruct (cmp k k1); cbn [length]; lia.
Qed.

Lemma fold_del_len {V} cmp ks : forall (m : smap V),
  length (fold_left (fun m k => sm_del cmp m k) ks m) <= length m.
Proof.
  induction ks as [|k ks IH]; intros m; cbn [fold_left]; [lia|].
  specialize (IH (sm_del cmp m k)). pose proof (del_len cmp m k). lia.
Qed.

Lemma pp_unfold ts :
  pp ts = length (flat_map call_contents (t_calls ts)) + pc_put (t_pc ts).
Proof. reflexivity. Qed.

Lemma pp_init thr :
  tsum pp (map (fun p : nat * list ccall => (fst p, mkT (snd p) Idle [])) thr)
  = length (contents thr).
Proof.
  unfold contents. induction thr as [|[t cs] r IH]; cbn [map tsum flat_map fst snd]; [reflexivity|].
  rewrite app_length, pp_unfold, IH. cbn [t_calls t_pc pc_put]. lia.
Qed.

Section Progress.
  Variable H : bytes -> bytes.
  Variable cmp : bytes -> bytes -> comparison.
  Hypothesis cmp_refl : forall a, cmp a a = Eq.
  Hypothesis cmp_eq : forall a b, cmp a b = Eq -> a = b.
  Hypothesis cmp_antisym : forall a b, cmp b a = CompOpp (cmp a b).
  Hypothesis cmp_trans : forall a b c, cmp a b = Lt -> cmp b c = Lt -> cmp a c = Lt.
  Variable nops : N.
  Variable bad : bytes -> bool.
  Variable ckbad : bool.
  Variable thr0 : list (nat * list ccall).
  Hypothesis thr0_nodup : NoDup (map fst thr0).
  Variable cas0 : smap bytes.
  Hypothesis cas0_sorted : sorted lex_cmp cas0.
  Hypothesis cas0_named : forall h c, In (h, c) cas0 -> H c = h.
  Hypothesis NoCollideC :
    forall a b, In a (allc thr0 cas0) -> In b (allc thr0 cas0) -> H a = H b -> a = b.

  Local Notation KX L := (L cmp cmp_refl cmp_eq cmp_antisym cmp_trans) (only parsing).
  Local Notation Inv := (ConcInv H cmp bad thr0 cas0).
  Local Notation Reach := (reachable H cmp nops bad ckbad thr0 cas0).
  Local Notation step := (cstep H cmp nops bad ckbad).

  Ltac head_destruct :=
    repeat (match goal with
            | |- (match ?x with _ => _ end = _) -> _ => destruct x eqn:?
            end).

  (* the number of indexed keys never exceeds the number of KPut calls of the programs *)
  Definition B : nat := length (contents thr0).
  Definition KmBound (g : cstate) : Prop := length (km (g_idx g)) + tsum pp (g_thr g) <= B.

  Lemma km_bound_step g t g' : KmBound g -> step g t = Some g' -> KmBound g'.
  Proof using cmp_refl cmp_eq cmp_antisym cmp_trans.
    unfold KmBound. intros KB. unfold cstep.
    destruct (tget (g_thr g) t) as [ts|] eqn:Ht; [|discriminate].
    destruct (t_pc ts) eqn:Hpc;
      try (solve [
        head_destruct; try discriminate; intros E; injection E as <-;
        unfold finish, set_pc; cbn [g_idx g_thr t_calls t_res t_pc km];
        match goal with |- context [tset (g_thr g) t ?x] =>
          pose proof (tsum_tset pp _ _ _ x Ht) as X end;
        rewrite !pp_unfold in X; cbn [t_calls t_pc] in X; rewrite ?Hpc in X;
        repeat match goal with Hx : t_calls ts = _ |- _ => rewrite Hx in X end;
        cbn [flat_map call_contents app length pc_put] in X;
        try (match goal with w : wkind |- _ => destruct w end; cbn [pc_put] in X);
        lia ]).
    (* WLockW *)
    destruct (apply_op cmp (g_idx g) (wop w)) as [[idx' un]|e] eqn:A; [|discriminate].
    intros E; injection E as <-. cbn [g_idx g_thr].
    destruct (KX C12_km_spec _ _ _ _ A) as [K _].
    match goal with |- context [tset (g_thr g) t ?x] =>
      pose proof (tsum_tset pp _ _ _ x Ht) as X end.
    rewrite !pp_unfold in X. cbn [t_calls t_pc] in X. rewrite Hpc in X.
    rewrite K. destruct w as [k h sz|ks r]; cbn [pc_put wop km_expected] in *.
    - pose proof (ins_len cmp (km (g_idx g)) k (mkItem h sz)). lia.
    - pose proof (fold_del_len cmp ks (km (g_idx g))). lia.
  Qed.

  Lemma km_bound_init : KmBound (init_c thr0 cas0).
  Proof using.
    unfold KmBound, init_c, B. cbn [g_idx g_thr km empty_istate length].
    rewrite pp_init. lia.
  Qed.

  Lemma km_bound g : Reach g -> KmBound g.
  Proof using cmp_refl cmp_eq cmp_antisym cmp_trans.
    intros [sched ->].
    assert (A : forall s g0, KmBound g0 -> KmBound (crun H cmp nops bad ckbad g0 s)).
    { induction s as [|t s IH]; intros g0 K0; cbn [crun]; [exact K0|].
      destruct (step g0 t) as [g1|] eqn:St; [|apply IH, K0].
      apply IH. eapply km_bound_step; eassumption. }
    apply A, km_bound_init.
  Qed.

  (* ---- one step of one thread ---- *)
  Lemma thread_step g t ts g' : Reach g -> tget (g_thr g) t = Some ts -> step g t = Some g' ->
    exists ts', g_thr g' = tset (g_thr g) t ts' /\ work B ts' < work B ts.
  Proof using cmp_refl cmp_eq cmp_antisym cmp_trans.
    intros R Ht. pose proof (km_bound g R) as KB. unfold KmBound in KB.
    unfold cstep. rewrite Ht.
    destruct (t_pc ts) eqn:Hpc;
    try (solve [
      head_destruct; try discriminate; intros E; injection E as <-;
      unfold finish, set_pc; cbn [g_idx g_thr t_calls t_res t_pc];
      eexists; (split; [reflexivity|]);
      unfold work; cbn [t_calls t_pc]; rewrite ?Hpc;
      repeat match goal with Hx : t_calls ts = _ |- _ => rewrite Hx end;
      cbn [calls_work call_work pc_work length wsize]; lia ]).
    - (* WLockW *)
      destruct (apply_op cmp (g_idx g) (wop w)) as [[idx' un]|e] eqn:A; [|discriminate].
      intros E; injection E as <-. cbn [g_idx g_thr].
      eexists; (split; [reflexivity|]).
      apply apply_un_len in A.
      unfold work. cbn [t_calls t_pc]. rewrite Hpc. cbn [pc_work]. lia.
    - (* WApplied *)
      destruct w as [k h sz|ks r]; cbn beta iota zeta;
        match goal with
        | |- (match filter ?f ?l with _ => _ end = _) -> _ =>
          pose proof (filter_len f l) as FL; destruct (filter f l) as [|x0 l0] eqn:F
        end; intros E; injection E as <-; cbn [g_idx g_thr];
        (eexists; (split; [reflexivity|]);
         unfold work; cbn [t_calls t_pc]; rewrite ?Hpc;
         cbn [pc_work length] in *; lia).
    - (* RRRead *)
      destruct (free (g_S g)); [|discriminate]. intros E; injection E as <-.
      unfold set_pc. cbn [g_idx g_thr t_calls t_res t_pc].
      eexists; (split; [reflexivity|]).
      pose proof (keys_in_len cmp (km (g_idx g)) lo hi) as KL.
      unfold work; cbn [t_calls t_pc]; rewrite ?Hpc. cbn [pc_work]. lia.
  Qed.

  (* ---- the per-thread statement ---- *)
  (* every step of a thread decreases its work (there is no retry edge any more), and leaves
     the other threads alone *)
  Theorem C15_progress_thread g t ts g' ts' : Reach g ->
    tget (g_thr g) t = Some ts -> step g t = Some g' -> tget (g_thr g') t = Some ts' ->
    work B ts' < work B ts /\
    forall u, u <> t -> tget (g_thr g') u = tget (g_thr g) u.
  Proof using cmp_refl cmp_eq cmp_antisym cmp_trans.
    intros R Ht St Ht'.
    destruct (thread_step g t ts g' R Ht St) as (ts2 & E & W).
    rewrite E, tget_tset_same in Ht'. injection Ht' as <-.
    split; [exact W|]. intros u N. rewrite E. apply tget_tset_other, N.
  Qed.

  (* ---- the global potential: the total remaining work ---- *)
  Definition potential (g : cstate) : nat := tsum (work B) (g_thr g).

  Theorem C15_potential_decreases g t g' : Reach g -> step g t = Some g' ->
    potential g' < potential g.
  Proof using cmp_refl cmp_eq cmp_antisym cmp_trans.
    intros R St.
    destruct (tget (g_thr g) t) as [ts|] eqn:Ht;
      [|unfold cstep in St; rewrite Ht in St; discriminate].
    destruct (thread_step g t ts g' R Ht St) as (ts' & E & W).
    unfold potential. rewrite E.
    pose proof (tsum_tset (work B) _ _ _ ts' Ht). lia.
  Qed.

  (* ---- the number of steps of a schedule ---- *)
  Fixpoint csteps (g : cstate) (sched : list nat) : nat :=
    match sched with
    | [] => 0
    | t :: r => match step g t with Some g' => S (csteps g' r) | None => csteps g r end
    end.

  Lemma csteps_bound sched : forall g, Reach g ->
    csteps g sched + potential (crun H cmp nops bad ckbad g sched) <= potential g.
  Proof using cmp_refl cmp_eq cmp_antisym cmp_trans.
    induction sched as [|t r IH]; intros g R; cbn [csteps crun]; [lia|].
    destruct (step g t) as [g'|] eqn:St; [|apply IH, R].
    pose proof (C15_potential_decreases g t g' R St).
    specialize (IH g' (reachable_step _ _ _ _ _ _ _ _ _ _ R St)). lia.
  Qed.

  (* sum over all threads and calls of call_work *)
  Definition total_work : nat := tsum (work B) (g_thr (init_c thr0 cas0)).

  (* any schedule performs at most total_work steps *)
  Theorem C15_progress sched : csteps (init_c thr0 cas0) sched <= total_work.
  Proof using cmp_refl cmp_eq cmp_antisym cmp_trans.
    pose proof (csteps_bound sched _ (reachable_init H cmp nops bad ckbad thr0 cas0)) as Bd.
    unfold total_work. unfold potential in Bd at 2. lia.
  Qed.

  (* in particular a schedule that only schedules enabled threads is that short *)
  Corollary C15_progress_enabled sched :
    csteps (init_c thr0 cas0) sched = length sched -> length sched <= total_work.
  Proof using cmp_refl cmp_eq cmp_antisym cmp_trans.
    intros <-. apply C15_progress.
  Qed.

  (* concurrent calls always complete: from every reachable state the programs can be run
     to completion (by deadlock freedom some thread can always move, and the potential
     bounds the number of moves), whatever happened before *)
  Theorem C15_calls_complete g : Reach g ->
    exists sched, all_finished (crun H cmp nops bad ckbad g sched) = true.
  Proof using cmp_refl cmp_eq cmp_antisym cmp_trans thr0_nodup cas0_sorted cas0_named NoCollideC.
    assert (A : forall n g0, potential g0 < n -> Reach g0 ->
                             exists sched, all_finished (crun H cmp nops bad ckbad g0 sched) = true).
    { clear g. induction n as [|n IH]; intros g Pn R; [lia|].
      destruct (all_finished g) eqn:AF; [exists []; exact AF|].
      destruct (C15_deadlock_free H cmp cmp_refl cmp_eq cmp_antisym cmp_trans nops bad ckbad thr0
                  thr0_nodup cas0 cas0_sorted cas0_named NoCollideC g R AF) as [t En].
      unfold enabled in En. destruct (step g t) as [g'|] eqn:St; [|discriminate].
      pose proof (C15_potential_decreases g t g' R St) as D.
      destruct (IH g') as [sched Hs]; [lia|eapply reachable_step; eassumption|].
      exists (t :: sched). cbn [crun]. rewrite St. exact Hs. }
    intros R. apply (A (S (potential g)) g); [lia|exact R].
  Qed.

  (* a run that stops only when nothing is enabled ends with all threads finished *)
  Theorem C15_stuck_is_finished g : Reach g ->
    (forall t, enabled H cmp nops bad ckbad g t = false) -> all_finished g = true.
  Proof using cmp_refl cmp_eq cmp_antisym cmp_trans thr0_nodup cas0_sorted cas0_named NoCollideC.
    intros R Stuck. destruct (all_finished g) eqn:AF; [reflexivity|].
    destruct (C15_deadlock_free H cmp cmp_refl cmp_eq cmp_antisym cmp_trans nops bad ckbad thr0
                thr0_nodup cas0 cas0_sorted cas0_named NoCollideC g R AF) as [t En].
    rewrite Stuck in En. discriminate.
  Qed.

End Progress.

Print Assumptions C15_progress_thread.
Print Assumptions C15_potential_decreases.
Print Assumptions C15_progress.
Print Assumptions C15_calls_complete.
Print Assumptions C15_stuck_is_finished.
