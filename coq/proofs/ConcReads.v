(* ConcReads.v -- C05, consequences for the read path after the repair of the ABA race.

   History: in the first model (and in the code) a reader that found its blob unlinked
   re-read the index WITHOUT keeping the state lock and compared the item with the stale
   one; delete-then-reput of the same content made it report BlobDataMissing although no
   data was lost (the old ConcExamples.C05_missing_reachable).  The repaired read path looks
   the key up again and opens its blob while holding the state lock shared (pc GOpenL).  The
   former side condition UniquePuts ("no hash is put twice") of this file is no longer
   needed: ConcProofs.C05_read_never_fails holds unconditionally.  This file collects the
   step-level corollaries:

     C05_no_step_reports_missing   no step of a reachable state appends CMissing
     C05_get_result_shape          a KGet that is past its lookup returns only CBytes results,
                                   or the I/O error CErr when the blob path is obstructed
     C05_range_result_shape        the same for a KGetRange, whose retry may also answer
                                   InvalidRange (CInvalid) from the current item
     C05_retry_is_one_round        the retry is a single round: GReread -> GOpenL -> finish,
                                   and the GOpenL step always finishes, with the content (or
                                   with CErr when the path of the current item is obstructed)

   All three hold for arbitrary fault parameters bad / ckbad. *)
From Cas Require Import Base Codec SMap Index Conc.
From CasProofs Require Import SMapProofs IndexProofs ConcInv ConcProofs.
From Coq Require Import List NArith Lia Bool Arith.
Import ListNotations.

Section Reads.
  Variable H : bytes -> bytes.
  Variable cmp : bytes -> bytes -> comparison.
  Hypothesis cmp_refl : forall a, cmp a a = Eq.
  Hypothesis cmp_eq : forall a b, cmp a b = Eq -> a = b.
  Hypothesis cmp_antisym : forall a b, cmp b a = CompOpp (cmp a b).
  Hypothesis cmp_trans : forall a b c, cmp a b = Lt -> cmp b c = Lt -> cmp a c = Lt.
  Variable nops : N.
  Variable bad : bytes -> bool.
  Variable ckbad : bool.
  Variable thr0 : list (nat * list ccall).
  Hypothesis thr0_nodup : NoDup (map fst thr0).
  Variable cas0 : smap bytes.
  Hypothesis cas0_sorted : sorted lex_cmp cas0.
  Hypothesis cas0_named : forall h c, In (h, c) cas0 -> H c = h.
  Hypothesis NoCollideC :
    forall a b, In a (allc thr0 cas0) -> In b (allc thr0 cas0) -> H a = H b -> a = b.

  Local Notation Reach := (reachable H cmp nops bad ckbad thr0 cas0).
  Local Notation step := (cstep H cmp nops bad ckbad).

  Theorem C05_no_step_reports_missing g t ts g' ts' : Reach g ->
    tget (g_thr g) t = Some ts -> step g t = Some g' -> tget (g_thr g') t = Some ts' ->
    t_res ts' <> t_res ts ++ [CMissing].
  Proof using cmp_refl cmp_eq cmp_antisym cmp_trans thr0_nodup cas0_sorted cas0_named NoCollideC.
    intros R Ht St Ht' E.
    apply (C05_read_never_fails H cmp cmp_refl cmp_eq cmp_antisym cmp_trans nops bad ckbad thr0 thr0_nodup
             cas0 cas0_sorted cas0_named NoCollideC g' (reachable_step _ _ _ _ _ _ _ _ _ _ R St)
             t ts' Ht').
    rewrite E. apply in_or_app. right. left. reflexivity.
  Qed.

  (* the step of a reader parked at GOpenL: it releases the shared lock and returns the
     content of the CURRENT item of the key -- the whole blob for a get, the requested slice of
     it for a get_range: [read_result md it c] -- (CErr if the path of that item is obstructed) *)
  Theorem C05_retry_is_one_round g t ts k it md : Reach g ->
    tget (g_thr g) t = Some ts -> t_pc ts = GOpenL k it md ->
    exists c g', step g t = Some g' /\
      sm_get cmp (km (g_idx g)) k = Some it /\
      sm_get lex_cmp (g_cas g) (ihash it) = Some c /\ H c = ihash it /\ len c = isize it /\
      tget (g_thr g') t =
        Some (mkT (t_calls ts) Idle
                  (t_res ts ++ [if bad (ihash it) then CErr else read_result md it c])) /\
      ~ In t (g_R g').
  Proof using cmp_refl cmp_eq cmp_antisym cmp_trans thr0_nodup cas0_sorted cas0_named NoCollideC.
    intros R Ht Hpc.
    destruct (C05_retry_sees_current H cmp cmp_refl cmp_eq cmp_antisym cmp_trans nops bad ckbad thr0
                thr0_nodup cas0 cas0_sorted cas0_named NoCollideC g t ts k it md R Ht Hpc)
      as (_ & _ & Gk & c & Gc & Hh & Hl).
    exists c.
    assert (St : exists g', step g t = Some g' /\
                   g' = finish (mkC (g_idx g) (g_bykey g) (g_byhash g) (g_cas g) (g_nextv g) (g_I g)
                                    (g_S g) (filter (fun u => negb (Nat.eqb u t)) (g_R g)) (g_thr g))
                               t ts (if bad (ihash it) then CErr else read_result md it c)).
    { unfold cstep. rewrite Ht, Hpc. cbn zeta. rewrite Gc.
      destruct (bad (ihash it)); eexists; split; reflexivity. }
    destruct St as (g' & St & ->). eexists. split; [exact St|].
    split; [exact Gk|]. split; [exact Gc|]. split; [exact Hh|]. split; [exact Hl|].
    unfold finish. cbn [g_thr g_R]. split; [apply tget_tset_same|].
    intros I. apply filter_In in I. destruct I as [_ I]. rewrite Nat.eqb_refl in I. discriminate.
  Qed.

  (* results produced by the read pcs of a KGet (mode MFull) are CBytes results or CErr *)
  Theorem C05_get_result_shape g t ts g' ts' r : Reach g ->
    tget (g_thr g) t = Some ts -> step g t = Some g' -> tget (g_thr g') t = Some ts' ->
    t_res ts' = t_res ts ++ [r] ->
    (exists k it, t_pc ts = GOpen k it MFull \/ t_pc ts = GReread k it MFull \/
                  t_pc ts = GOpenL k it MFull) ->
    (exists o, r = CBytes o) \/ r = CErr.
  Proof using cmp_refl cmp_eq cmp_antisym cmp_trans thr0_nodup cas0_sorted cas0_named NoCollideC.
    intros R Ht St Ht' Hres (k & it & Hp).
    pose proof (C05_no_step_reports_missing g t ts g' ts' R Ht St Ht') as NM.
    revert St. unfold cstep. rewrite Ht.
    destruct Hp as [Hp|[Hp|Hp]]; rewrite Hp; cbn [pre_open read_result absent_result];
      repeat (match goal with
              | |- (match ?x with _ => _ end = _) -> _ => destruct x eqn:?
              end); try discriminate;
      intros E; injection E as <-; unfold finish, set_pc in Ht'; cbn [g_thr] in Ht';
      rewrite tget_tset_same in Ht'; injection Ht' as <-; cbn [t_res] in *;
      try (exfalso; apply (f_equal (@length cres)) in Hres; rewrite app_length in Hres;
           cbn [length] in Hres; lia);
      try (apply app_inv_head in Hres; injection Hres as <-;
           first [left; eexists; reflexivity|right; reflexivity]).
    exfalso. apply NM. reflexivity.
  Qed.

  (* the same for a KGetRange (mode MRange a b); the retry may also take the invalid-range
     exit, decided from the CURRENT item of the key *)
  Theorem C05_range_result_shape g t ts g' ts' r a b : Reach g ->
    tget (g_thr g) t = Some ts -> step g t = Some g' -> tget (g_thr g') t = Some ts' ->
    t_res ts' = t_res ts ++ [r] ->
    (exists k it, t_pc ts = GOpen k it (MRange a b) \/ t_pc ts = GReread k it (MRange a b) \/
                  t_pc ts = GOpenL k it (MRange a b)) ->
    (exists o, r = CBytes o) \/ r = CErr \/ r = CInvalid.
  Proof using cmp_refl cmp_eq cmp_antisym cmp_trans thr0_nodup cas0_sorted cas0_named NoCollideC.
    intros R Ht St Ht' Hres (k & it & Hp).
    pose proof (C05_no_step_reports_missing g t ts g' ts' R Ht St Ht') as NM.
    revert St. unfold cstep. rewrite Ht.
    destruct Hp as [Hp|[Hp|Hp]]; rewrite Hp; cbn [pre_open read_result absent_result];
      repeat (match goal with
              | |- (match ?x with _ => _ end = _) -> _ => destruct x eqn:?
              end); try discriminate;
      intros E; injection E as <-; unfold finish, set_pc in Ht'; cbn [g_thr] in Ht';
      rewrite tget_tset_same in Ht'; injection Ht' as <-; cbn [t_res] in *;
      try (exfalso; apply (f_equal (@length cres)) in Hres; rewrite app_length in Hres;
           cbn [length] in Hres; lia);
      try (apply app_inv_head in Hres; injection Hres as <-;
           first [left; eexists; reflexivity|right; left; reflexivity|right; right; reflexivity]).
    - apply app_inv_head in Hres. injection Hres as <-.
      match goal with Hx : _ = Some c |- _ => revert Hx end.
      destruct (isize _ <=? a)%N; [intros Hx; injection Hx as <-; left; eexists; reflexivity|].
      destruct (N.min b _ <? a)%N; [intros Hx; injection Hx as <-; right; right; reflexivity|].
      discriminate.
    - exfalso. apply NM. reflexivity.
  Qed.
End Reads.

Print Assumptions C05_no_step_reports_missing.
Print Assumptions C05_retry_is_one_round.
Print Assumptions C05_get_result_shape.
Print Assumptions C05_range_result_shape.
