(* CrashCas.v -- C06 at every crash point (G6), and replay_trace for the store's programs (G0).

   [CasNamed] (every file under cas/ holds the bytes its name promises) is preserved by every
   single effective call of every operation.  Every call the store issues is "nocas" (never
   creates, opens, appends to, or renames onto a path under cas/) -- except the one rename of
   put, whose source holds exactly the bytes whose hash names the target.  Hence every
   intermediate filesystem of put / abort / remove / remove_range / checkpoint / close /
   open_with_recover satisfies CasNamed if the first does.

   The structural pass over the programs (Section Struct) is generic in the predicate; its
   instance with the trivial predicate (Section Faithful) gives replay_trace: the replay of the
   calls recorded by any API operation, by open, by a whole history is the filesystem it
   leaves. *)
From Cas Require Import History.
From CasProofs Require Import BaseProofs CodecBase CodecProofs SMapProofs IndexProofs
  StoreFS StoreInv StoreWrite StoreRead StoreHist DiskInv Recover CrashInv CrashOps.
From Coq Require Import ZifyBool ZifyNat ZifyN.
Open Scope N_scope.

Definition nocas (c : call) : Prop :=
  match c with
  | CMkdir _ | CSync _ | CUnlink _ => True
  | CCreate p | CCreateExcl p | COpenAppend p | CAppend p _ => not_cas p
  | CRename _ q => not_cas q
  end.

(* ------------------------------------------------------------------ *)
(* the structural pass over the store's programs, for any predicate kept by the nocas calls *)
(* ------------------------------------------------------------------ *)
(* bind with a fact about the result of the first part *)
Lemma walkm_bind_res : forall (P : fs -> Prop) {A B} (Q : A -> Prop) (m : M A) (f : A -> M B),
  WalkM P m -> (forall w, Q (fst (m w))) -> (forall a, Q a -> WalkM P (f a)) ->
  WalkM P (bind m f).
Proof.
  intros P A B Q m f Hm Hq Hf w F X. unfold bind. specialize (Hm w F X). specialize (Hq w).
  destruct (m w) as [a w1]. cbn [snd fst] in *.
  eapply walk_trans; [exact Hm|].
  apply Hf; [exact Hq|exact (walk_fault _ _ _ Hm)|exact (walk_end _ _ _ Hm)].
Qed.

Lemma new_staging_res : forall w,
  match fst (new_staging w) with Ok p => is_staging p | Err _ => True end.
Proof.
  intros w. unfold new_staging, bind, get_fs.
  destruct (do_call (CCreateExcl (PStaging (nstage (wfs w)))) w) as [[u|e] w1]; exact I.
Qed.

Section Struct.
  Variable H : bytes -> bytes.
  Variable P : fs -> Prop.
  Hypothesis K : forall c, nocas c -> call_keeps P c.
  Local Ltac leaf := apply K; exact I.

  Lemma sw_mkdir_p : forall d, WalkM P (mkdir_p d).
  Proof using K. intros. apply walkm_mkdir_p. leaf. Qed.
  Lemma sw_mkdir_cas2 : forall a b, WalkM P (mkdir_cas2 a b).
  Proof using K. intros. apply walkm_mkdir_cas2. intros. leaf. Qed.
  Lemma sw_mkdirs_pre : forall ds, WalkM P (mkdirs_pre ds).
  Proof using K. intros. apply walkm_mkdirs_pre. intros. leaf. Qed.
  Lemma sw_unlink_all : forall ps, WalkM P (unlink_all ps).
  Proof using K. intros. apply walkm_unlink_all. intros. leaf. Qed.
  Lemma sw_delete_blobs : forall hs, WalkM P (delete_blobs hs).
  Proof using K. intros. apply walkm_delete_blobs. intros. leaf. Qed.
  Hint Resolve sw_mkdir_p sw_mkdir_cas2 sw_mkdirs_pre sw_unlink_all sw_delete_blobs : walkm.

  Lemma sw_prune_below : forall b, WalkM P (prune_below b).
  Proof using K. intros. unfold prune_below. walkm leaf. Qed.
  Hint Resolve sw_prune_below : walkm.

  Lemma sw_atomic_write : forall t tmp data, not_cas t -> not_cas tmp ->
    WalkM P (atomic_write t tmp data).
  Proof using K.
    intros t tmp data Nt Nm. unfold atomic_write. walkm ltac:(apply K; first [exact I|assumption]).
  Qed.

  Lemma sw_bw_flush : forall i buf, WalkM P (bw_flush (PWal i) buf).
  Proof using K. intros. unfold bw_flush. walkm leaf. Qed.
  Hint Resolve sw_bw_flush : walkm.
  Lemma sw_bw_write_all : forall i buf data, WalkM P (bw_write_all (PWal i) buf data).
  Proof using K. intros. unfold bw_write_all. walkm leaf. Qed.
  Hint Resolve sw_bw_write_all : walkm.
  Lemma sw_writer_close : forall seg buf, WalkM P (writer_close seg buf).
  Proof using K. intros. unfold writer_close. walkm leaf. Qed.
  Hint Resolve sw_writer_close : walkm.
  Lemma sw_writer_seal : forall seg buf, WalkM P (writer_seal seg buf).
  Proof using K. intros. unfold writer_seal. walkm leaf. Qed.
  Hint Resolve sw_writer_seal : walkm.
  Lemma sw_write_entry : forall seg buf ver payload, WalkM P (write_entry H seg buf ver payload).
  Proof using K. intros. unfold write_entry. walkm leaf. Qed.
  Hint Resolve sw_write_entry : walkm.

  Section WithCfg.
    Variable cfg : config.

    Lemma sw_append_op : forall wl payload, WalkM P (append_op H cfg wl payload).
    Proof using K. intros. unfold append_op. walkm leaf. Qed.
    Hint Resolve sw_append_op : walkm.

    Lemma sw_checkpoint_inner : forall reason m, WalkM P (checkpoint_inner cfg reason m).
    Proof using K.
      intros. unfold checkpoint_inner.
      pose proof (sw_atomic_write PIndex PIndexTmp) as Ka.
      walkm leaf; apply Ka; exact I.
    Qed.
    Hint Resolve sw_checkpoint_inner : walkm.

    Lemma sw_log_and_apply : forall m o, WalkM P (log_and_apply H cfg m o).
    Proof using K. intros. unfold log_and_apply. walkm leaf. Qed.
    Hint Resolve sw_log_and_apply : walkm.

    Lemma sw_new_staging : WalkM P new_staging.
    Proof using K. unfold new_staging. walkm leaf. Qed.

    Lemma sw_abort : forall m k chunks, WalkM P (abort m k chunks).
    Proof using K.
      intros. unfold abort, drop_staging.
      apply (walkm_bind_res P (fun r => match r with Ok p => is_staging p | Err _ => True end));
        [apply sw_new_staging|apply new_staging_res|].
      intros [p|e] Qp; [|apply walkm_ret]. destruct p; try contradiction. walkm leaf.
    Qed.

    (* put, given that the rename of a staging file keeps P *)
    Lemma sw_put : (forall i q, call_keeps P (CRename (PStaging i) q)) ->
      forall m k chunks, WalkM P (put H cfg m k chunks).
    Proof using K.
      intros Kr m k chunks. unfold put, drop_staging. cbv zeta.
      apply (walkm_bind_res P (fun r => match r with Ok p => is_staging p | Err _ => True end));
        [apply sw_new_staging|apply new_staging_res|].
      intros [p|e] Qp; [|apply walkm_ret]. destruct p; try contradiction.
      walkm ltac:(first [apply K; exact I|apply Kr]).
    Qed.

    Lemma sw_remove : forall m k, WalkM P (remove H cfg m k).
    Proof using K. intros. unfold remove. walkm leaf. Qed.

    Lemma sw_remove_range : forall m lo hi, WalkM P (remove_range H cfg m lo hi).
    Proof using K. intros. unfold remove_range. walkm leaf. Qed.

    Lemma sw_checkpoint : forall m, WalkM P (checkpoint cfg m).
    Proof using K. intros. unfold checkpoint. apply sw_checkpoint_inner. Qed.

    Lemma sw_close : forall m, WalkM P (close m).
    Proof using K. intros. unfold close. walkm leaf. Qed.

    Lemma sw_index_load : forall pre, WalkM P (index_load H cfg pre).
    Proof using K. intros. unfold index_load. walkm leaf. Qed.
    Hint Resolve sw_index_load : walkm.

    Lemma sw_open : WalkM P (open_with_recover H cfg).
    Proof using K.
      unfold open_with_recover, pre_create_all.
      pose proof (sw_atomic_write PSettings PSettingsTmp) as Ka.
      walkm leaf; apply Ka; exact I.
    Qed.
  End WithCfg.
End Struct.

Section CrashCas.
  Variable H : bytes -> bytes.
  Local Notation CasNamed := (CasNamed H).

  Definition CasOk (x : fs) : Prop := FsWf x /\ CasNamed x.

  Lemma casnamed_fdat : forall x,
    CasNamed x <-> (forall comps d, fdat x (PCas comps) = Some d -> comps = hexpath (H d)).
  Proof.
    intros x. unfold StoreInv.CasNamed. split.
    - intros C comps d G. apply fdat_some in G. destruct G as (f & G & <-). now apply C.
    - intros C comps f G. apply C. apply fdat_some. now exists f.
  Qed.

  Lemma not_cas_neq : forall p comps, not_cas p -> PCas comps <> p.
  Proof. intros p comps N E. subst p. exact N. Qed.

  Lemma nocas_keeps : forall c, nocas c -> call_keeps CasOk c.
  Proof.
    intros c Nc x x' [W C] E. destruct (apply_call_view c x x' W E) as (W' & _ & V).
    split; [exact W'|]. rewrite casnamed_fdat in *. intros comps d G.
    destruct c; cbn [nocas] in Nc.
    - destruct V as [_ V]. rewrite V in G. now apply C.
    - destruct V as [_ V]. rewrite V, vset_other in G by now apply not_cas_neq. now apply C.
    - destruct V as (_ & _ & _ & V). rewrite V, vset_other in G by now apply not_cas_neq.
      now apply C.
    - destruct V as [_ V]. rewrite V in G. destruct (fdat x p); [now apply C|].
      rewrite vset_other in G by now apply not_cas_neq. now apply C.
    - destruct V as [_ (d0 & _ & V)]. rewrite V, vset_other in G by now apply not_cas_neq.
      now apply C.
    - destruct V as [_ V]. rewrite V in G. now apply C.
    - destruct V as [_ (d0 & _ & V)]. rewrite V, vset_other in G by now apply not_cas_neq.
      unfold vset in G. destruct (path_eqb (PCas comps) p); [discriminate|now apply C].
    - destruct V as [_ [_ V]]. rewrite V in G.
      unfold vset in G. destruct (path_eqb (PCas comps) p); [discriminate|now apply C].
  Qed.

  Definition cw_mkdir_cas2 := sw_mkdir_cas2 CasOk nocas_keeps.

  Section WithCfg.
    Variable cfg : config.

    Definition cw_log_and_apply := sw_log_and_apply H CasOk nocas_keeps cfg.
    Definition cw_abort := sw_abort CasOk nocas_keeps.
    Definition cw_remove := sw_remove H CasOk nocas_keeps cfg.
    Definition cw_remove_range := sw_remove_range H CasOk nocas_keeps cfg.
    Definition cw_checkpoint := sw_checkpoint CasOk nocas_keeps cfg.
    Definition cw_close := sw_close CasOk nocas_keeps.
    Definition cw_open := sw_open H CasOk nocas_keeps cfg.

    (* ---- put: the one call that writes under cas/ ---- *)
    Hypothesis H_len : forall b, length (H b) = 32%nat.
    Hypothesis H_byte : forall b, Forall (fun x => x < 256) (H b).
    Hypothesis n_pos : 0 < c_n cfg.

    Lemma cw_put : forall m s sg k chunks w,
      Live0 H cfg m s sg -> wfs w = s -> wfault w = None -> CasOk s ->
      NoCollide H (concat chunks :: map snd sg) ->
      exists m' w', put H cfg m k chunks w = ((Ok tt, m'), w') /\ Walk CasOk w w'.
    Proof.
      intros m s sg k chunks w L Ws F C0 NC.
      destruct (put_spec H H_len H_byte cfg n_pos m s sg k chunks w L Ws F NC)
        as (m' & w' & E & F' & _).
      exists m', w'. split; [exact E|]. subst s.
      pose proof L as [Ssg Hkm Hidx Hnc Hcas Hst Hdirs Hwal]. destruct Hdirs as (D1 & D2 & D3).
      unfold put in E. cbv zeta in E. set (c := concat chunks) in *. clearbody c.
      set (h := H c) in *. set (p := PStaging (nstage (wfs w))) in *. set (q := cas_path h) in *.
      (* A. the staging file *)
      set (s1 := mkFs (set_path (files (wfs w)) p (mkFile [] 0)) (dirs (wfs w)) (nstage (wfs w) + 1)).
      set (w1 := mkWorld s1 (TCall (CCreateExcl p) :: wtrace w) (S (wcount w)) None).
      assert (Ea : apply_call (CCreateExcl p) (wfs w) = Ok s1).
      { unfold p. cbn [apply_call]. unfold parent_ok. cbn [parent_dir]. rewrite D1.
        rewrite (Hst (nstage (wfs w))) by lia. reflexivity. }
      assert (Ed : do_call (CCreateExcl p) w = (Ok tt, w1)) by exact (do_call_ok _ _ _ F Ea).
      assert (EA : new_staging w = (Ok p, w1)).
      { unfold new_staging. unfold bind at 1, get_fs at 1. fold p.
        rewrite (bind_eq _ _ _ _ _ Ed). reflexivity. }
      rewrite (bind_eq _ _ _ _ _ EA) in E.
      assert (K1 : Walk CasOk w w1).
      { eapply keeps_call; [|exact F|exact C0|exact Ed]. apply nocas_keeps. exact I. }
      assert (G1 : forall r, fget s1 r = if path_eqb r p then Some (mkFile [] 0) else fget (wfs w) r).
      { intros r. unfold fget, s1. cbn [files]. apply lookup_set_path. }
      (* B. the content *)
      assert (PB : exists w2 f2, (match c with [] => ret (Ok tt) | _ => do_call (CAppend p c) end) w1
                     = (Ok tt, w2) /\ Step (eq p) (ev_on (eq p)) w1 w2 /\
                     fget (wfs w2) p = Some f2 /\ fdata f2 = c /\ Walk CasOk w1 w2).
      { destruct c as [|x c].
        - exists w1, (mkFile [] 0). split; [reflexivity|]. split; [now apply step_refl|].
          split; [cbn [wfs w1]; now rewrite G1, path_eqb_refl|]. split; [reflexivity|].
          apply walk_refl; [reflexivity|exact (walk_end _ _ _ K1)].
        - destruct (call_append (eq p) w1 p (mkFile [] 0) (x :: c) eq_refl eq_refl)
            as (w2 & E2 & W2 & S2).
          { cbn [wfs w1]. now rewrite G1, path_eqb_refl. }
          exists w2, (mkFile ([] ++ x :: c) 0). split; [exact E2|]. split; [exact S2|].
          split; [rewrite W2; apply fget_upd_same|]. split; [reflexivity|].
          eapply keeps_call; [|reflexivity|exact (walk_end _ _ _ K1)|exact E2].
          apply nocas_keeps. exact I. }
      destruct PB as (w2 & f2 & E2 & S2 & G2 & Df2 & K2). rewrite (bind_eq _ _ _ _ _ E2) in E.
      assert (PC : exists w3 f3, (if c_sync cfg then do_call (CSync p) else ret (Ok tt)) w2
                     = (Ok tt, w3) /\ Step (eq p) (ev_on (eq p)) w2 w3 /\
                     fget (wfs w3) p = Some f3 /\ fdata f3 = c /\ Walk CasOk w2 w3).
      { destruct (c_sync cfg).
        - destruct (call_sync (eq p) w2 p f2 (st_fault _ _ _ _ S2) eq_refl G2) as (w3 & E3 & W3 & S3).
          exists w3, (mkFile (fdata f2) (length (fdata f2))). split; [exact E3|]. split; [exact S3|].
          split; [rewrite W3; apply fget_upd_same|]. split; [exact Df2|].
          eapply keeps_call; [|exact (st_fault _ _ _ _ S2)|exact (walk_end _ _ _ K2)|exact E3].
          apply nocas_keeps. exact I.
        - exists w2, f2. split; [reflexivity|]. split; [apply step_refl, S2|].
          split; [exact G2|]. split; [exact Df2|].
          apply walk_refl; [exact (st_fault _ _ _ _ S2)|exact (walk_end _ _ _ K2)]. }
      destruct PC as (w3 & f3 & E3 & S3 & G3 & Df3 & K3). rewrite (bind_eq _ _ _ _ _ E3) in E.
      pose proof (step_trans _ _ _ _ _ S2 S3) as S13.
      assert (Dirs3 : dirs (wfs w3) = dirs (wfs w)).
      { now rewrite (fr_dirs _ _ _ (st_frame _ _ _ _ S13)). }
      destruct (hexpath_shape h (H_len c) (H_byte c)) as (xa & xb & xc & Hp & _).
      assert (PD : exists w4, (if mpre m then ret (Ok tt)
                               else mkdir_cas2 (nth 0 (hexpath h) []) (nth 1 (hexpath h) [])) w3
                     = (Ok tt, w4) /\ Grow w3 w4 /\ parent_ok (wfs w4) q = true /\ Walk CasOk w3 w4).
      { destruct (mpre m) eqn:Pre.
        - exists w3. split; [reflexivity|]. split; [apply grow_refl, S3|].
          split; [|apply walk_refl; [exact (st_fault _ _ _ _ S3)|exact (walk_end _ _ _ K3)]].
          specialize (D3 eq_refl h (H_len c) (H_byte c)). fold q in D3. unfold parent_ok, has_dir in *.
          now rewrite Dirs3.
        - destruct (mkdir_cas2_ok (nth 0 (hexpath h) []) (nth 1 (hexpath h) []) w3
                      (st_fault _ _ _ _ S3)) as (w4 & E4 & G4 & D4).
          { unfold has_dir in *. now rewrite Dirs3. }
          exists w4. split; [exact E4|]. split; [exact G4|]. split.
          + unfold parent_ok, q, cas_path. cbn [parent_dir]. rewrite Hp in *.
            cbn [removelast nth] in *. exact D4.
          + pose proof (cw_mkdir_cas2 (nth 0 (hexpath h) []) (nth 1 (hexpath h) []) w3
                          (st_fault _ _ _ _ S3) (walk_end _ _ _ K3)) as Wm.
            now rewrite E4 in Wm. }
      destruct PD as (w4 & E4 & G4 & PO4 & K4). rewrite (bind_eq _ _ _ _ _ E4) in E.
      assert (G4p : fget (wfs w4) p = Some f3) by now rewrite (grow_fget _ _ _ G4).
      pose proof (walk_end _ _ _ K4) as [Wf4 Cn4].
      destruct (x_rename w4 p q c (proj1 (gr_ext _ _ G4)) Wf4) as (w5 & E5 & X5 & V5).
      { apply fdat_some. now exists f3. }
      { exact PO4. }
      rewrite (bind_eq _ _ _ _ _ E5) in E.
      assert (C5 : CasOk (wfs w5)).
      { split; [exact (proj1 (proj2 X5))|]. rewrite casnamed_fdat in *. intros comps d G.
        rewrite V5 in G. unfold vset at 1 in G.
        destruct (path_eqb_spec (PCas comps) q) as [Eq|Nq].
        - inversion G; subst d. unfold q, cas_path in Eq. now inversion Eq.
        - rewrite vset_other in G by discriminate. now apply Cn4. }
      assert (K5 : Walk CasOk w4 w5).
      { eapply walk_call; [exact (proj1 (gr_ext _ _ G4))|exact E5|now split|exact C5]. }
      pose proof (cw_log_and_apply m (RPut k h (len c)) w5 (proj1 X5) C5) as K6.
      rewrite E in K6. cbn [snd] in K6.
      eapply walk_trans; [exact K1|]. eapply walk_trans; [exact K2|].
      eapply walk_trans; [exact K3|]. eapply walk_trans; [exact K4|].
      eapply walk_trans; [exact K5|exact K6].
    Qed.

    (* ---- G6: the statements ---- *)
    Local Notation Live0 := (Live0 H cfg).

    Theorem cas_put_crash : forall m s sg k chunks w,
      Live0 m s sg -> FsWf s -> CasNamed s -> wfs w = s -> wfault w = None ->
      NoCollide H (concat chunks :: map snd sg) ->
      exists m' w', put H cfg m k chunks w = ((Ok tt, m'), w') /\ Along CasNamed w w'.
    Proof.
      intros m s sg k chunks w L W C Ws F NC.
      destruct (cw_put m s sg k chunks w L Ws F (conj W C) NC) as (m' & w' & E & K).
      exists m', w'. split; [exact E|]. eapply along_weaken; [|exact (walk_along _ _ _ K)].
      intros x [_ X]. exact X.
    Qed.

    Lemma cas_along : forall {A} (prog : M A) w, WalkM CasOk prog ->
      FsWf (wfs w) -> CasNamed (wfs w) -> wfault w = None ->
      Along CasNamed w (snd (prog w)).
    Proof.
      intros A prog w K W C F. eapply along_weaken; [|exact (walk_along _ _ _ (K w F (conj W C)))].
      intros x [_ X]. exact X.
    Qed.

    (* for the other operations nothing but FsWf and CasNamed is needed at the start *)
    Theorem cas_abort_crash : forall m k chunks w,
      FsWf (wfs w) -> CasNamed (wfs w) -> wfault w = None ->
      Along CasNamed w (snd (abort m k chunks w)).
    Proof. intros. now apply cas_along; [apply cw_abort| | |]. Qed.

    Theorem cas_remove_crash : forall m k w,
      FsWf (wfs w) -> CasNamed (wfs w) -> wfault w = None ->
      Along CasNamed w (snd (remove H cfg m k w)).
    Proof. intros. now apply cas_along; [apply cw_remove| | |]. Qed.

    Theorem cas_remove_range_crash : forall m lo hi w,
      FsWf (wfs w) -> CasNamed (wfs w) -> wfault w = None ->
      Along CasNamed w (snd (remove_range H cfg m lo hi w)).
    Proof. intros. now apply cas_along; [apply cw_remove_range| | |]. Qed.

    Theorem cas_checkpoint_crash : forall m w,
      FsWf (wfs w) -> CasNamed (wfs w) -> wfault w = None ->
      Along CasNamed w (snd (checkpoint cfg m w)).
    Proof. intros. now apply cas_along; [apply cw_checkpoint| | |]. Qed.

    Theorem cas_close_crash : forall m w,
      FsWf (wfs w) -> CasNamed (wfs w) -> wfault w = None ->
      Along CasNamed w (snd (close m w)).
    Proof. intros. now apply cas_along; [apply cw_close| | |]. Qed.

    Theorem cas_open_crash : forall w,
      FsWf (wfs w) -> CasNamed (wfs w) -> wfault w = None ->
      Along CasNamed w (snd (open_with_recover H cfg w)).
    Proof. intros. now apply cas_along; [apply cw_open| | |]. Qed.

    (* consequently CasNamed holds in whatever state a crash leaves behind *)
    Corollary cas_named_crash_fs : forall {A} (prog : M A) x n, WalkM CasOk prog ->
      FsWf x -> CasNamed x ->
      CasNamed (crash_fs n (rev (wtrace (snd (prog (init_world x None))))) x).
    Proof.
      intros A prog x n K W C.
      pose proof (cas_along prog (init_world x None) K W C eq_refl) as (_ & tr & E & Al).
      cbn [init_world wtrace wfs] in *. rewrite app_nil_r in E. rewrite E. unfold crash_fs.
      destruct (Nat.le_gt_cases n (length tr)) as [Ln|Ln]; [now apply Al|].
      rewrite firstn_all2 by (rewrite rev_length; lia).
      rewrite <- (firstn_all (rev tr)), rev_length. apply Al. lia.
    Qed.
  End WithCfg.
End CrashCas.

Print Assumptions cas_put_crash.
Print Assumptions cas_abort_crash.
Print Assumptions cas_remove_crash.
Print Assumptions cas_remove_range_crash.
Print Assumptions cas_checkpoint_crash.
Print Assumptions cas_close_crash.
Print Assumptions cas_open_crash.

(* ------------------------------------------------------------------ *)
(* G0, replay_trace for the store's programs: in a fault-free world the replay of the calls
   recorded by any program of the store -- every API operation, open, whole histories -- is
   the filesystem it leaves.  (Instance of the structural pass with the trivial predicate.) *)
(* ------------------------------------------------------------------ *)
Section Faithful.
  Variable H : bytes -> bytes.

  Definition Any : fs -> Prop := fun _ => True.
  Lemma any_keeps : forall c, call_keeps Any c.
  Proof. intros c s s' _ _. exact I. Qed.
  Lemma any_k : forall c, nocas c -> call_keeps Any c.
  Proof. intros c _. apply any_keeps. Qed.

  Local Ltac leaf := apply any_keeps.

  Lemma aw_delete_orphan_list : forall m hs acc, WalkM Any (delete_orphan_list m hs acc).
  Proof.
    intros m. induction hs as [|h hs IH]; intros acc; cbn [delete_orphan_list]; [apply walkm_ret|].
    destruct (referenced m h); [apply IH|].
    apply walkm_bind; [apply walkm_do_call; leaf|]. intros [u|[| |]]; apply IH.
  Qed.
  Lemma aw_remove_paths : forall ps a b, WalkM Any (remove_paths ps a b).
  Proof.
    induction ps as [|p ps IH]; intros a b; cbn [remove_paths]; [apply walkm_ret|].
    apply walkm_bind; [apply walkm_get_fs|]. intros s. destruct (fget s p); [|apply IH].
    apply walkm_bind; [apply walkm_do_call; leaf|]. intros [u|e]; apply IH.
  Qed.
  Lemma aw_quarantine_list : forall m hs acc, WalkM Any (quarantine_list m hs acc).
  Proof.
    intros m. induction hs as [|h hs IH]; intros acc; cbn [quarantine_list]; [apply walkm_ret|].
    destruct (referenced m h); [apply IH|].
    apply walkm_bind; [apply walkm_do_call; leaf|]. intros [u|[| |]]; apply IH.
  Qed.
  Hint Resolve aw_delete_orphan_list aw_remove_paths aw_quarantine_list : walkm.

  Lemma aw_delete_orphans : forall m o, WalkM Any (delete_orphans m o).
  Proof. intros. unfold delete_orphans. walkm leaf. Qed.
  Lemma aw_quarantine_orphans : forall m o, WalkM Any (quarantine_orphans m o).
  Proof. intros. unfold quarantine_orphans. walkm leaf. Qed.
  Lemma aw_delete_orphan : forall m o h, WalkM Any (delete_orphan m o h).
  Proof. intros. unfold delete_orphan. walkm leaf. Qed.

  Lemma aw_open_store : forall cfg, WalkM Any (open_store H cfg).
  Proof.
    intros cfg. unfold open_store.
    pose proof (sw_open H Any any_k cfg) as Ko. pose proof (sw_close Any any_k) as Kc.
    apply walkm_bind; [exact Ko|]. intros [[m os]|e]; [|apply walkm_ret].
    destruct os as [o|]; [|apply walkm_ret].
    match goal with |- context [if ?c then _ else _] => destruct c end; [|apply walkm_ret].
    apply walkm_bind; [apply Kc|]. intros; apply walkm_ret.
  Qed.

  Lemma aw_step : forall hd o, WalkM Any (step H hd o).
  Proof.
    intros hd o.
    pose proof (fun cfg => sw_open H Any any_k cfg) as Ko.
    pose proof (sw_close Any any_k) as Kc.
    pose proof (fun cfg => sw_put H Any any_k cfg (fun i q => any_keeps _)) as Kp.
    pose proof (sw_abort Any any_k) as Ka.
    pose proof (fun cfg => sw_remove H Any any_k cfg) as Kr.
    pose proof (fun cfg => sw_remove_range H Any any_k cfg) as Krr.
    pose proof (fun cfg => sw_checkpoint Any any_k cfg) as Kck.
    pose proof aw_open_store as Kos. pose proof aw_delete_orphans as K1.
    pose proof aw_quarantine_orphans as K2. pose proof aw_delete_orphan as K3.
    destruct o, hd as [hh|]; cbn [step];
      repeat (cbv beta iota zeta;
              first [ apply walkm_ret | apply walkm_get_fs
                    | apply Kc | apply Kp | apply Ka | apply Kr | apply Krr | apply Kck
                    | apply Ko | apply Kos | apply K1 | apply K2 | apply K3
                    | apply walkm_bind
                    | lazymatch goal with
                      | |- forall _, _ => intro
                      | |- WalkM _ (match ?x with _ => _ end) => destruct x
                      end ]).
  Qed.

  Lemma aw_run_ops : forall ops hd, WalkM Any (run_ops H hd ops).
  Proof.
    induction ops as [|o ops IH]; intros hd; cbn [run_ops]; [apply walkm_ret|].
    apply walkm_bind; [apply aw_step|]. intros x.
    apply walkm_bind; [apply IH|]. intros y. apply walkm_ret.
  Qed.

  (* replay_trace, in the form of the task, for every program that passes the structural check *)
  Theorem replay_trace_prog : forall {A} (prog : M A) w a w' tr, WalkM Any prog ->
    wfault w = None -> prog w = (a, w') -> wtrace w' = tr ++ wtrace w ->
    replay_calls (rev tr) (wfs w) = wfs w'.
  Proof.
    intros A prog w a w' tr K F E Et. pose proof (K w F I) as Wk. rewrite E in Wk.
    eapply replay_trace; eassumption.
  Qed.

  (* whole histories: the final filesystem is the replay of the recorded trace from the initial one *)
  Theorem replay_trace_run_hist : forall s0 ops outs hd w,
    run_hist H s0 None ops = (outs, hd, w) -> replay_calls (trace_of w) s0 = wfs w.
  Proof.
    intros s0 ops outs hd w E. unfold run_hist in E.
    destruct (run_ops H None ops (init_world s0 None)) as [r w1] eqn:Er. inversion E; subst.
    unfold trace_of.
    apply (replay_trace_prog (run_ops H None ops) (init_world s0 None) r w (wtrace w)
             (aw_run_ops ops None) eq_refl Er).
    cbn [init_world wtrace]. now rewrite app_nil_r.
  Qed.

  (* consequently crash_fs at the full length is the final filesystem *)
  Corollary crash_fs_all : forall s0 ops outs hd w,
    run_hist H s0 None ops = (outs, hd, w) ->
    crash_fs (length (trace_of w)) (trace_of w) s0 = wfs w.
  Proof.
    intros s0 ops outs hd w E. unfold crash_fs. rewrite firstn_all.
    eapply replay_trace_run_hist; exact E.
  Qed.
End Faithful.

Print Assumptions replay_trace_run_hist.
