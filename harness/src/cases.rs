// cases.rs -- executes case files (the format of ocaml/driver.ml) against the real library.
use std::fmt::Debug;
use std::hash::Hash;
use std::io::{Read, Write};
use std::num::NonZeroU64;
use std::ops::Bound;
use std::path::{Path, PathBuf};

use cassadilia::{Cas, Config, KeyBytes, LibError, OrphanStats, SyncMode};

use crate::canon::*;

pub trait HKey: KeyBytes + Clone + Eq + Ord + Hash + Debug + Send + Sync + 'static {}
impl<T: KeyBytes + Clone + Eq + Ord + Hash + Debug + Send + Sync + 'static> HKey for T {}

#[derive(Clone, Debug)]
pub struct Cfg { pub kt: String, pub n: u64, pub sync: bool, pub pre: bool, pub scan: bool, pub verify: bool, pub failint: bool }
impl Default for Cfg {
    fn default() -> Self { Cfg { kt: "bytes".into(), n: 10000, sync: true, pre: false, scan: true, verify: false, failint: true } }
}
impl Cfg {
    pub fn apply(&mut self, kv: &str) {
        let (k, v) = kv.split_once('=').expect("cfg item");
        match k {
            "kt" => self.kt = v.to_string(),
            "n" => self.n = v.parse().unwrap(),
            "sync" => self.sync = v == "1",
            "pre" => self.pre = v == "1",
            "scan" => self.scan = v == "1",
            "verify" => self.verify = v == "1",
            "failint" => self.failint = v == "1",
            _ => panic!("bad cfg item {kv}"),
        }
    }
    pub fn to_config(&self) -> Config {
        Config {
            sync_mode: if self.sync { SyncMode::Sync } else { SyncMode::Async },
            num_ops_per_wal: NonZeroU64::new(self.n).unwrap(),
            pre_create_cas_dirs: self.pre,
            scan_orphans_on_startup: self.scan,
            verify_blob_integrity: self.verify,
            fail_on_integrity_errors: self.failint,
        }
    }
}

pub struct Case { pub name: String, pub lines: Vec<String> }

pub fn parse_file(path: &str) -> Vec<Case> {
    let text = std::fs::read_to_string(path).expect("read case file");
    let mut cases = vec![];
    let mut cur: Option<Case> = None;
    for l in text.lines() {
        let l = l.trim();
        if let Some(name) = l.strip_prefix("case ") {
            if let Some(c) = cur.take() { cases.push(c); }
            cur = Some(Case { name: name.to_string(), lines: vec![] });
        } else if l == "end" {
            if let Some(c) = cur.take() { cases.push(c); }
        } else if let Some(c) = cur.as_mut() {
            if !l.is_empty() && !l.starts_with('#') { c.lines.push(l.to_string()); }
        }
    }
    if let Some(c) = cur.take() { cases.push(c); }
    cases
}

fn tmp_base() -> PathBuf {
    if let Ok(p) = std::env::var("HX_TMP") { return PathBuf::from(p); }
    if Path::new("/dev/shm").is_dir() { PathBuf::from("/dev/shm") } else { std::env::temp_dir() }
}

fn err_str(e: &LibError) -> String { format!("err:{}", classify(&format!("{e:?}"))) }

fn parse_bound<K: HKey>(s: &str) -> Bound<K> {
    if s == "U" { Bound::Unbounded }
    else if let Some(h) = s.strip_prefix("I:") { Bound::Included(K::from_key_bytes(&unhex(h)).expect("valid key")) }
    else if let Some(h) = s.strip_prefix("E:") { Bound::Excluded(K::from_key_bytes(&unhex(h)).expect("valid key")) }
    else { panic!("bad bound {s}") }
}
fn key<K: HKey>(h: &str) -> K { K::from_key_bytes(&parse_chunk(h)).unwrap_or_else(|| panic!("invalid key {h} for key type")) }
fn khex<K: HKey>(k: &K) -> String { hex(k.to_key_bytes().as_ref()) }

fn ostats_str<K>(o: &OrphanStats<K>, root: &Path, tr: &TraceReader) -> String {
    let mut orph: Vec<String> = o.orphaned_blobs.iter().map(|h| hex(h.as_bytes())).collect(); orph.sort();
    let rel = |p: &PathBuf| -> String {
        let r = p.strip_prefix(root).unwrap_or(p).to_str().unwrap().to_string();
        if let Some(n) = r.strip_prefix("staging/") {
            match tr.staging_names.get(n) { Some(i) => format!("staging/#{i}"), None => format!("staging/#{}", n.trim_start_matches("planted")) }
        } else if let Some(rest) = r.strip_prefix("cas/") {
            format!("cas/{}", rest.split('/').map(|c| printable(c.as_bytes())).collect::<Vec<_>>().join("/"))
        } else { r }
    };
    let mut inv: Vec<String> = o.invalid_files.iter().map(rel).collect(); inv.sort();
    let mut mis: Vec<String> = o.missing_blobs.iter().map(|h| hex(h.as_bytes())).collect(); mis.sort();
    let mut cor: Vec<String> = o.corrupted_blobs.iter().map(|h| hex(h.as_bytes())).collect(); cor.sort();
    let mut stg: Vec<String> = o.staging_files.iter().map(rel).collect(); stg.sort();
    format!("orph=[{}] invalid=[{}] missing=[{}] corrupted=[{}] staging=[{}] total={}",
        orph.join(","), inv.join(","), mis.join(","), cor.join(","), stg.join(","), o.total_blobs)
}

pub struct Exec<K: HKey> {
    pub root: PathBuf,
    pub cfg: Cfg,
    pub cas: Option<Cas<K>>,
    pub ostats: Option<OrphanStats<K>>,
    pub tr: TraceReader,
    pub out: Vec<String>,
    pub idx: usize,
    pub progress_fd: i32,
    pub quarantine: PathBuf,
    pub pending_note: Option<String>,
    pub readers: std::collections::HashMap<String, std::io::BufReader<std::fs::File>>,
}

fn guarded<T>(f: impl FnOnce() -> T) -> Result<T, ()> {
    std::panic::catch_unwind(std::panic::AssertUnwindSafe(f)).map_err(|_| ())
}

impl<K: HKey> Exec<K> {
    pub fn new(root: PathBuf, log: PathBuf, quarantine: PathBuf) -> Self {
        Exec { root, cfg: Cfg::default(), cas: None, ostats: None, tr: TraceReader::new(log), out: vec![], idx: 0, progress_fd: -1, quarantine, pending_note: None, readers: std::collections::HashMap::new() }
    }
    fn entries(&self) -> String {
        let cas = self.cas.as_ref().unwrap();
        let g = cas.read_index_state();
        let v: Vec<String> = g.iter().map(|(k, it)| format!("{}={}:{}", khex(k), hex(it.blob_hash.as_bytes()), it.blob_size)).collect();
        format!("entries:[{}]", v.join(";"))
    }
    fn blobs(&self) -> String {
        let cas = self.cas.as_ref().unwrap();
        let g = cas.read_index_state();
        let mut v: Vec<(Vec<u8>, u32)> = g.known_blobs().map(|(h, c)| (h.as_bytes().to_vec(), *c)).collect();
        v.sort();
        format!("blobs:[{}]", v.iter().map(|(h, c)| format!("{}={}", hex(h), c)).collect::<Vec<_>>().join(";"))
    }
    fn stats(&self) -> String {
        let s = self.cas.as_ref().unwrap().stats();
        format!("stats:{},{},{}", s.cas.unique_blobs, s.cas.total_bytes, s.index.serialized_size_bytes)
    }
    pub fn obs(&mut self, prefix: &str) {
        if self.cas.is_some() {
            let e = self.entries(); let b = self.blobs(); let s = self.stats();
            self.out.push(format!("{prefix} {e}")); self.out.push(format!("{prefix} {b}")); self.out.push(format!("{prefix} {s}"));
        } else { self.out.push(format!("{prefix} closed")); }
        let (tl, _) = self.tr.read_new();
        for l in dump_dir(&self.root, &format!("{prefix} "), Some(&self.tr)) { self.out.push(l); }
        for l in tl { self.out.push(format!("T {l}")); }
    }
    fn do_put(&mut self, k: &str, chunks: &[Vec<u8>], finish: bool) -> String {
        let cas = self.cas.as_ref().unwrap();
        let r = guarded(|| -> Result<(), String> {
            let mut tx = cas.put(key::<K>(k)).map_err(|e| err_str(&e))?;
            for c in chunks {
                if tx.write(c).is_err() { drop(tx); return Err("err:io.StageWrite".to_string()); }
            }
            if finish { tx.finish().map_err(|e| err_str(&e)) } else { drop(tx); Ok(()) }
        });
        match r { Ok(Ok(())) => "ok".into(), Ok(Err(e)) => e, Err(()) => "err:panic".into() }
    }
    pub fn open(&mut self, c: &Cfg, gate: bool) -> String {
        self.ostats = None;
        self.cas = None;
        let conf = c.to_config();
        let root = self.root.clone();
        let r = guarded(|| -> Result<(Cas<K>, Option<OrphanStats<K>>), LibError> {
            if gate { Cas::<K>::open(&root, conf).map(|c| (c, None)) } else { Cas::<K>::open_with_recover(&root, conf) }
        });
        // let the shim log settle before mapping staging names
        let _ = self.tr.read_new_keep();
        match r {
            Ok(Ok((cas, os))) => {
                let s = match &os { Some(o) => format!("opened {}", ostats_str(o, &self.root, &self.tr)), None => "opened".to_string() };
                self.cas = Some(cas); self.ostats = os; self.cfg = c.clone();
                s
            }
            Ok(Err(e)) => err_str(&e),
            Err(()) => "err:panic".into(),
        }
    }
    pub fn exec_line(&mut self, l: &str) {
        let t: Vec<&str> = l.split_whitespace().collect();
        if t.is_empty() { return; }
        match t[0] {
            "cfg" => { for kv in &t[1..] { self.cfg.apply(kv); } return; }
            "obs" => { self.obs("O"); return; }
            "plant" | "mkdir" | "fault" => return,
            "rmblob" => {
                // a blob file disappears from the (closed) store: rmblob <content>
                let hx = hex(blake3::hash(&parse_chunk(t[1])).as_bytes());
                let _ = std::fs::remove_file(self.root.join("cas").join(&hx[0..2]).join(&hx[2..4]).join(&hx[4..]));
                return;
            }
            "setsettings" => {
                // rewrite the settings file of a closed store: setsettings <version> <pre 0/1> <n>
                let js = format!("{{\"version\":{},\"dir_tree_is_pre_created\":{},\"num_ops_per_wal\":{}}}", t[1], t[2] == "1", t[3]);
                std::fs::write(self.root.join("db_settings.json"), js).unwrap();
                return;
            }
            _ => {}
        }
        if t[0] != "open" && t[0] != "drain" && self.cas.is_none() {
            self.out.push(format!("R {} {} -> closed", self.idx, l)); self.idx += 1; return;
        }
        let res: String = match t[0] {
            "put" => { let ch = parse_chunks(t.get(2).copied().unwrap_or("")); self.do_put(t[1], &ch, true) }
            "abort" => { let ch = parse_chunks(t.get(2).copied().unwrap_or("")); self.do_put(t[1], &ch, false) }
            "remove" => { let cas = self.cas.as_ref().unwrap();
                match guarded(|| cas.remove(&key::<K>(t[1]))) { Ok(Ok(b)) => format!("ok:{b}"), Ok(Err(e)) => err_str(&e), Err(()) => "err:panic".into() } }
            "remove_range" => { let cas = self.cas.as_ref().unwrap();
                let (lo, hi) = (parse_bound::<K>(t[1]), parse_bound::<K>(t[2]));
                match guarded(|| cas.remove_range((lo, hi))) { Ok(Ok(n)) => format!("ok:{n}"), Ok(Err(e)) => err_str(&e), Err(()) => "err:panic".into() } }
            "checkpoint" => { let cas = self.cas.as_ref().unwrap();
                match guarded(|| cas.checkpoint()) { Ok(Ok(())) => "ok".into(), Ok(Err(e)) => err_str(&e), Err(()) => "err:panic".into() } }
            "get" => { let cas = self.cas.as_ref().unwrap();
                match guarded(|| cas.get(&key::<K>(t[1]))) { Ok(Ok(Some(b))) => format!("bytes:{}", show_content(&b)), Ok(Ok(None)) => "none".into(), Ok(Err(e)) => err_str(&e), Err(()) => "err:panic".into() } }
            "size" => { let cas = self.cas.as_ref().unwrap();
                match guarded(|| cas.get_size(&key::<K>(t[1]))) { Ok(Ok(Some(n))) => format!("size:{n}"), Ok(Ok(None)) => "none".into(), Ok(Err(e)) => err_str(&e), Err(()) => "err:panic".into() } }
            "range" => { let cas = self.cas.as_ref().unwrap();
                let (a, b): (u64, u64) = (t[2].parse().unwrap(), t[3].parse().unwrap());
                let k0 = key::<K>(t[1]);
                let (r, peak) = crate::codec::measure(|| guarded(|| cas.get_range(&k0, a, b)));
                self.pending_note = Some(format!("A {} peak={}", self.idx, peak));
                match r { Ok(Ok(Some(b))) => format!("bytes:{}", show_content(&b)), Ok(Ok(None)) => "none".into(), Ok(Err(e)) => err_str(&e), Err(()) => "err:panic".into() } }
            "reader" => { let cas = self.cas.as_ref().unwrap();
                match guarded(|| cas.get_reader(&key::<K>(t[1])).map(|o| o.map(|mut r| { let mut v = vec![]; r.read_to_end(&mut v).unwrap(); v }))) {
                    Ok(Ok(Some(b))) => format!("bytes:{}", show_content(&b)), Ok(Ok(None)) => "none".into(), Ok(Err(e)) => err_str(&e), Err(()) => "err:panic".into() } }
            "hold" => { let cas = self.cas.as_ref().unwrap();
                // a long-lived reader: opened now, drained later (after overwrites / removals / reopen)
                match guarded(|| cas.get_reader(&key::<K>(t[2]))) { Ok(Ok(Some(r))) => { self.readers.insert(t[1].to_string(), r); "held".into() } Ok(Ok(None)) => "none".into(), Ok(Err(e)) => err_str(&e), Err(()) => "err:panic".into() } }
            "drain" => match self.readers.remove(t[1]) { None => "none".into(), Some(mut r) => { let mut v = vec![]; match r.read_to_end(&mut v) { Ok(_) => format!("bytes:{}", show_content(&v)), Err(e) => format!("err:read:{e}") } } },
            "iter" => self.entries(),
            "riter" => { let cas = self.cas.as_ref().unwrap();
                let (lo, hi) = (parse_bound::<K>(t[1]), parse_bound::<K>(t[2]));
                match guarded(|| { let g = cas.read_index_state(); g.range::<K, _>((lo, hi)).map(|(k, it)| format!("{}={}:{}", khex(k), hex(it.blob_hash.as_bytes()), it.blob_size)).collect::<Vec<_>>() }) {
                    Ok(v) => format!("entries:[{}]", v.join(";")), Err(()) => "err:panic".into() } }
            "stats" => self.stats(),
            "blobs" => self.blobs(),
            "close" => { self.ostats = None; self.cas = None; "ok".into() }
            "open" => {
                let gate = t[1..].contains(&"gate");
                let mut c = self.cfg.clone();
                for kv in t[1..].iter().filter(|s| **s != "gate") { c.apply(kv); }
                self.open(&c, gate)
            }
            "delorphans" => match &self.ostats { None => "closed".into(), Some(o) => match guarded(|| o.delete_orphans()) {
                Ok(Ok(r)) => format!("recovery:del={},quar={},skip={},inv={},stag={},err={}", r.orphans_deleted, r.orphans_quarantined, r.orphans_skipped, r.invalid_files_removed, r.staging_files_removed, r.errors.len()),
                Ok(Err(e)) => err_str(&e), Err(()) => "err:panic".into() } },
            "quarantine" => match &self.ostats { None => "closed".into(), Some(o) => { let q = self.quarantine.clone(); match guarded(|| o.quarantine_orphans(&q)) {
                Ok(Ok(r)) => format!("recovery:del={},quar={},skip={},inv={},stag={},err={}", r.orphans_deleted, r.orphans_quarantined, r.orphans_skipped, r.invalid_files_removed, r.staging_files_removed, r.errors.len()),
                Ok(Err(e)) => err_str(&e), Err(()) => "err:panic".into() } } },
            "delorphan" => match &self.ostats { None => "closed".into(), Some(o) => {
                let mut h = [0u8; 32]; h.copy_from_slice(&unhex(t[1]));
                match guarded(|| o.delete_orphan(&cassadilia::BlobHash::from_bytes(h))) { Ok(Ok(b)) => format!("ok:{b}"), Ok(Err(e)) => err_str(&e), Err(()) => "err:panic".into() } } },
            _ => panic!("bad case line {l}"),
        };
        self.out.push(format!("R {} {} -> {}", self.idx, l, res));
        if let Some(n) = self.pending_note.take() { self.out.push(n); }
        if self.progress_fd >= 0 {
            let s = format!("{} {} count={}\n", self.idx, res, shim_count());
            unsafe { libc::write(self.progress_fd, s.as_ptr().cast(), s.len()); }
        }
        self.idx += 1;
    }
}
impl TraceReader {
    /// learn staging names without consuming trace lines
    pub fn read_new_keep(&mut self) {
        let Ok(s) = std::fs::read_to_string(self.path_ref()) else { return };
        for line in s.lines() {
            let t: Vec<&str> = line.split(' ').collect();
            if t.len() >= 5 && t[2] == "open" && t[4].contains('X') && t[0] != "F" && line.ends_with("= 0 0") {
                if let Some(n) = t[3].strip_prefix("staging/") {
                    if !self.staging_names.contains_key(n) { let i = self.next_staging; self.next_staging += 1; self.staging_names.insert(n.to_string(), i); }
                }
            }
        }
    }
}

/// materialise `plant`/`mkdir` lines
pub fn plant(root: &Path, lines: &[String], tr: &mut TraceReader) {
    for l in lines {
        let t: Vec<&str> = l.split_whitespace().collect();
        if t.first() == Some(&"mkdir") { std::fs::create_dir_all(root.join(t[1])).unwrap(); }
        if t.first() == Some(&"plant") {
            let mut rel = t[1].to_string();
            if let Some(i) = rel.strip_prefix("staging/#") {
                let i: u64 = i.parse().unwrap();
                tr.staging_names.insert(format!("planted{i}"), i);
                tr.next_staging = tr.next_staging.max(i + 1);
                rel = format!("staging/planted{i}");
            }
            let p = root.join(&rel);
            std::fs::create_dir_all(p.parent().unwrap()).unwrap();
            let data = if let Some(s) = t[2].strip_prefix("S:") {
                let v: Vec<&str> = s.split(':').collect();
                format!("{{\"version\":{},\"dir_tree_is_pre_created\":{},\"num_ops_per_wal\":{}}}", v[0], v[1] == "1", v[2]).into_bytes()
            } else { parse_chunk(t[2]) };
            std::fs::write(p, data).unwrap();
        }
    }
}

struct Scratch { dir: tempfile::TempDir }
impl Scratch {
    fn new() -> Self { Scratch { dir: tempfile::Builder::new().prefix("hx").tempdir_in(tmp_base()).unwrap() } }
    fn root(&self) -> PathBuf { self.dir.path().join("db") }
    fn log(&self) -> PathBuf { self.dir.path().join("shim.log") }
    fn quarantine(&self) -> PathBuf { self.dir.path().join("quarantine") }
}

fn run_case_in<K: HKey>(case: &Case, sc: &Scratch, arm: (i32, i64), progress: Option<&Path>) -> Vec<String> {
    let root = sc.root();
    std::fs::create_dir_all(&root).unwrap();
    let mut ex = Exec::<K>::new(root.clone(), sc.log(), sc.quarantine());
    plant(&root, &case.lines, &mut ex.tr);
    if let Some(p) = progress {
        let c = std::ffi::CString::new(p.to_str().unwrap()).unwrap();
        ex.progress_fd = unsafe { libc::open(c.as_ptr(), libc::O_WRONLY | libc::O_CREAT | libc::O_APPEND, 0o644) };
    }
    shim_set_root(&root);
    shim_set_log(&sc.log(), std::env::var("HX_SHIM_DATA").is_ok());
    // a `fault <k>` directive in the case overrides the mode's arming (plain / damage runs)
    let directive = case.lines.iter().find_map(|l| l.strip_prefix("fault ").map(|k| k.trim().parse::<i64>().unwrap()));
    match directive { Some(k) if arm.0 <= 1 => shim_arm(3, k), _ => shim_arm(arm.0, arm.1) }
    for l in &case.lines { ex.exec_line(l); }
    let count = shim_count();
    // a case that does not end with `close` keeps its handle until here
    ex.ostats = None; ex.cas = None;
    shim_arm(0, -1);
    ex.out.push(format!("N counted={count}"));
    ex.out
}

fn kt_of(case: &Case) -> String {
    let mut c = Cfg::default();
    for l in &case.lines { if let Some(r) = l.strip_prefix("cfg ") { for kv in r.split_whitespace() { c.apply(kv); } } }
    c.kt
}
fn case_cfg(case: &Case) -> Cfg {
    let mut c = Cfg::default();
    for l in &case.lines { if let Some(r) = l.strip_prefix("cfg ") { for kv in r.split_whitespace() { c.apply(kv); } } }
    c
}

macro_rules! dispatch {
    ($kt:expr, $f:ident, $($arg:expr),*) => {
        match $kt.as_str() {
            "bytes" => $f::<Vec<u8>>($($arg),*),
            "string" => $f::<String>($($arg),*),
            "arr4" => $f::<[u8; 4]>($($arg),*),
            "u8" => $f::<u8>($($arg),*), "u16" => $f::<u16>($($arg),*), "u32" => $f::<u32>($($arg),*),
            "u64" => $f::<u64>($($arg),*), "u128" => $f::<u128>($($arg),*),
            "i8" => $f::<i8>($($arg),*), "i16" => $f::<i16>($($arg),*), "i32" => $f::<i32>($($arg),*),
            "i64" => $f::<i64>($($arg),*), "i128" => $f::<i128>($($arg),*),
            other => panic!("bad key type {other}"),
        }
    };
}

/// fork; the child runs `f` and exits with its status; the parent waits (with a timeout).
/// Returns the wait status, or None on timeout (the child is killed).
pub fn in_child(timeout_s: u64, f: impl FnOnce() -> i32) -> Option<i32> {
    std::io::stdout().flush().unwrap();
    let pid = unsafe { libc::fork() };
    if pid == 0 {
        let code = f();
        std::io::stdout().flush().ok();
        unsafe { libc::_exit(code) };
    }
    let start = std::time::Instant::now();
    loop {
        let mut st = 0;
        let r = unsafe { libc::waitpid(pid, &mut st, libc::WNOHANG) };
        if r == pid {
            if libc::WIFEXITED(st) { return Some(libc::WEXITSTATUS(st)); }
            return Some(128 + libc::WTERMSIG(st));
        }
        if start.elapsed().as_secs() >= timeout_s {
            unsafe { libc::kill(pid, libc::SIGKILL); libc::waitpid(pid, &mut st, 0); }
            return None;
        }
        std::thread::sleep(std::time::Duration::from_micros(300));
    }
}

pub fn copy_dir(from: &Path, to: &Path) {
    std::fs::create_dir_all(to).unwrap();
    for e in std::fs::read_dir(from).unwrap().flatten() {
        let p = e.path();
        let t = to.join(e.file_name());
        if e.file_type().unwrap().is_dir() { copy_dir(&p, &t); } else { std::fs::copy(&p, &t).unwrap(); }
    }
}

fn recovery_lines<K: HKey>(root: &Path, log: &Path, quarantine: &Path, cfg: &Cfg, keys: &[String]) -> Vec<String> {
    let mut ex = Exec::<K>::new(root.to_path_buf(), log.to_path_buf(), quarantine.to_path_buf());
    let r = ex.open(cfg, false);
    let mut out = vec![format!("V open -> {r}")];
    if ex.cas.is_some() {
        out.push(format!("V {}", ex.entries())); out.push(format!("V {}", ex.blobs())); out.push(format!("V {}", ex.stats()));
        for k in keys {
            let cas = ex.cas.as_ref().unwrap();
            let s = match guarded(|| cas.get(&key::<K>(k))) { Ok(Ok(Some(b))) => format!("bytes:{}", show_content(&b)), Ok(Ok(None)) => "none".into(), Ok(Err(e)) => err_str(&e), Err(()) => "err:panic".into() };
            out.push(format!("V get {k} -> {s}"));
        }
        // usability: one more put / get / remove round and a clean restart
        let probe = keys.first().cloned();
        if let Some(k) = probe {
            let r1 = ex.do_put(&k, &[b"probe-after-recovery".to_vec()], true);
            let cas = ex.cas.as_ref().unwrap();
            let r2 = match guarded(|| cas.get(&key::<K>(&k))) { Ok(Ok(Some(b))) => (b.as_ref() == b"probe-after-recovery").to_string(), _ => "false".into() };
            out.push(format!("V probe put={r1} readback={r2}"));
        }
        ex.ostats = None; ex.cas = None;
        let r = ex.open(cfg, false);
        out.push(format!("V reopen -> {}", if r.starts_with("opened") { "opened" } else { &r }));
        ex.ostats = None; ex.cas = None;
    }
    for l in dump_dir(root, "W ", None) { out.push(l); }
    out
}

fn case_keys(case: &Case) -> Vec<String> {
    let mut ks: Vec<String> = vec![];
    for l in &case.lines {
        let t: Vec<&str> = l.split_whitespace().collect();
        if matches!(t.first().copied(), Some("put" | "abort" | "remove" | "get")) && t.len() > 1 && !ks.contains(&t[1].to_string()) { ks.push(t[1].to_string()); }
    }
    ks
}

fn run_case_modes<K: HKey>(case: &Case, mode: &str) {
    let timeout = 60;
    let print_file = |p: &Path| { if let Ok(s) = std::fs::read_to_string(p) { print!("{s}"); } };
    let child_run = |sc: &Scratch, arm: (i32, i64), outp: &Path, progress: Option<&Path>| -> Option<i32> {
        in_child(timeout, || {
            let lines = run_case_in::<K>(case, sc, arm, progress);
            let mut f = std::fs::File::create(outp).unwrap();
            for l in lines { writeln!(f, "{l}").unwrap(); }
            0
        })
    };
    let counted_of = |p: &Path| -> i64 {
        std::fs::read_to_string(p).ok().and_then(|s| s.lines().rev().find_map(|l| l.strip_prefix("N counted=").map(|x| x.parse().unwrap()))).unwrap_or(-1)
    };
    match mode {
        "plain" => {
            let sc = Scratch::new();
            let outp = sc.dir.path().join("out");
            println!("CASE {}", case.name);
            match child_run(&sc, (1, -1), &outp, None) {
                Some(0) => print_file(&outp),
                Some(c) => { print_file(&outp); println!("X exit={c}"); }
                None => println!("X hang"),
            }
        }
        "crash-all" => {
            let sc0 = Scratch::new();
            let outp0 = sc0.dir.path().join("out");
            child_run(&sc0, (1, -1), &outp0, None);
            let total = counted_of(&outp0);
            println!("CASE {} crash-total={}", case.name, total);
            let cfg = case_cfg(case);
            let keys = case_keys(case);
            for k in 0..=total {
                let sc = Scratch::new();
                let outp = sc.dir.path().join("out");
                let prog = sc.dir.path().join("progress");
                let st = child_run(&sc, (2, k), &outp, Some(&prog));
                println!("CRASH {k}");
                let acked = std::fs::read_to_string(&prog).map(|s| s.lines().count()).unwrap_or(0);
                println!("A status={} acked={}", st.map_or("hang".to_string(), |c| c.to_string()), acked);
                if let Ok(s) = std::fs::read_to_string(&prog) { for l in s.lines() { println!("P {l}"); } }
                for l in dump_dir(&sc.root(), "C ", None) { println!("{l}"); }
                // recovery in a fresh process
                let rout = sc.dir.path().join("rec");
                let (root, log, q) = (sc.root(), sc.dir.path().join("rec.log"), sc.quarantine());
                let r = in_child(timeout, || {
                    let lines = recovery_lines::<K>(&root, &log, &q, &cfg, &keys);
                    let mut f = std::fs::File::create(&rout).unwrap();
                    for l in lines { writeln!(f, "{l}").unwrap(); }
                    0
                });
                match r { Some(0) => print_file(&rout), Some(c) => { print_file(&rout); println!("V exit={c}"); } None => println!("V hang") }
            }
        }
        "damage-all" => {
            // run the history to its clean end, then damage copies of the directory
            let sc0 = Scratch::new();
            let outp0 = sc0.dir.path().join("out");
            child_run(&sc0, (0, -1), &outp0, None);
            println!("CASE {}", case.name);
            let base = sc0.root();
            for l in dump_dir(&base, "Z ", None) { println!("{l}"); }
            let cfg = case_cfg(case);
            let snap = std::fs::read(base.join("index")).map(|d| crate::indep::snapshot_version(&d)).unwrap_or(0);
            let mut wals: Vec<(u64, PathBuf)> = std::fs::read_dir(&base).unwrap().flatten().filter_map(|e| {
                let n = e.file_name().to_str().unwrap().to_string();
                n.strip_suffix("_index.wal").and_then(|i| i.parse::<u64>().ok()).map(|i| (i, e.path())) }).collect();
            wals.sort();
            let wal_ids = wals.clone();
            let sample = |a: usize, b: usize| -> Vec<usize> {
                if b - a <= 120 { (a..b).collect() } else { (a..b).filter(|x| x - a < 50 || b - x <= 50 || (x - a) % 17 == 0).collect() }
            };
            for (id, path) in wals {
                let data = std::fs::read(&path).unwrap();
                let name = format!("{id}_index.wal");
                let try_open = |label: String, data2: Vec<u8>| {
                    let sc = Scratch::new();
                    let root = sc.root();
                    copy_dir(&base, &root);
                    std::fs::write(root.join(&name), &data2).unwrap();
                    if label.starts_with("t ") {
                        // the log is cut short: everything after the cut is gone, later segments included
                        for (id2, _) in wal_ids.iter().filter(|(i, _)| *i > id) { let _ = std::fs::remove_file(root.join(format!("{id2}_index.wal"))); }
                    }
                    let rout = sc.dir.path().join("rec");
                    let (log, q) = (sc.dir.path().join("rec.log"), sc.quarantine());
                    let cfg2 = cfg.clone();
                    let r = in_child(timeout, || {
                        let mut ex = Exec::<K>::new(root.clone(), log.clone(), q.clone());
                        let r = ex.open(&cfg2, true);
                        let line = if ex.cas.is_some() { format!("opened {}", ex.entries()) } else { r };
                        std::fs::write(&rout, line).unwrap();
                        0
                    });
                    let res = match r { Some(0) => std::fs::read_to_string(&rout).unwrap_or_default(), Some(c) => format!("exit={c}"), None => "hang".into() };
                    println!("D {name} {label} -> {res}");
                };
                for (o, ver, l) in crate::indep::record_offsets(&data) {
                    if ver <= snap { continue; }
                    for cut in sample(o, o + 44 + l) { try_open(format!("t {cut}"), data[..cut].to_vec()); }
                    let mut pos = sample(o + 8, o + 40); pos.extend(sample(o + 44, o + 44 + l));
                    for p in pos { for mask in [1u8, 128u8] { let mut d2 = data.clone(); d2[p] ^= mask; try_open(format!("x {p} {mask}"), d2); } }
                }
            }
        }
        "powerloss-all" => {
            // one traced run with data; then images for every cut point x every set of files that
            // lose their unsynced bytes
            let sc0 = Scratch::new();
            let outp0 = sc0.dir.path().join("out");
            let prog = sc0.dir.path().join("progress");
            unsafe { std::env::set_var("HX_SHIM_DATA", "1"); }
            child_run(&sc0, (1, -1), &outp0, Some(&prog));
            let raw = std::fs::read_to_string(sc0.log()).unwrap_or_default();
            let groups = crate::plmode::parse_log(&raw);
            // acknowledged operations per cut: the progress file records the call counter after each op
            let acks: Vec<i64> = std::fs::read_to_string(&prog).unwrap_or_default().lines().filter_map(|l| l.split("count=").nth(1).and_then(|x| x.trim().parse().ok())).collect();
            println!("CASE {} crash-total={}", case.name, groups.len());
            let cfg = case_cfg(case);
            let keys = case_keys(case);
            // canonical staging names: order of creation
            let mut stag: std::collections::HashMap<String, usize> = std::collections::HashMap::new();
            for g in &groups { if let crate::plmode::Ev::Open(p, fl) = &g[0] { if fl.contains('X') && p.starts_with("staging/") { let n = stag.len(); stag.entry(p.clone()).or_insert(n); } } }
            let canon = |p: &String| -> String { match stag.get(p) { Some(i) => format!("staging/#{i}"), None => p.clone() } };
            let mut sim = crate::plmode::SimFs::default();
            for n in 0..=groups.len() {
                if n > 0 { for e in &groups[n - 1] { sim.apply(e); } }
                let mut uns = sim.unsynced();
                uns.sort_by_key(|p| canon(p));
                if uns.is_empty() { continue; }
                let m = uns.len();
                let masks: Vec<usize> = if m <= 3 { (1..(1usize << m)).collect() } else { let mut v: Vec<usize> = (0..m).map(|i| 1usize << i).collect(); v.push((1usize << m) - 1); v };
                for mask in masks {
                    let victims: Vec<String> = (0..m).filter(|i| mask & (1 << i) != 0).map(|i| uns[i].clone()).collect();
                    let sc = Scratch::new();
                    sim.materialise(&sc.root(), &victims);
                    let acked = acks.iter().filter(|c| **c <= n as i64).count();
                    println!("CRASH {n}");
                    println!("A status=powerloss acked={acked} victims={}", victims.iter().map(&canon).collect::<Vec<_>>().join(","));
                    for l in dump_dir(&sc.root(), "C ", None) { println!("{l}"); }
                    let rout = sc.dir.path().join("rec");
                    let (root, log, q) = (sc.root(), sc.dir.path().join("rec.log"), sc.quarantine());
                    let r = in_child(timeout, || {
                        let lines = recovery_lines::<K>(&root, &log, &q, &cfg, &keys);
                        let mut f = std::fs::File::create(&rout).unwrap();
                        for l in lines { writeln!(f, "{l}").unwrap(); }
                        0
                    });
                    match r { Some(0) => print_file(&rout), Some(c) => { print_file(&rout); println!("V exit={c}"); } None => println!("V hang") }
                }
            }
        }
        m if m == "fault-all" || m.starts_with("fault:") => {
            let ks: Vec<i64> = if let Some(k) = m.strip_prefix("fault:") { vec![k.parse().unwrap()] } else {
                let sc0 = Scratch::new();
                let outp0 = sc0.dir.path().join("out");
                child_run(&sc0, (1, -1), &outp0, None);
                (0..counted_of(&outp0)).collect()
            };
            for k in ks {
                let sc = Scratch::new();
                let outp = sc.dir.path().join("out");
                println!("CASE {} fault={}", case.name, k);
                match child_run(&sc, (3, k), &outp, None) {
                    Some(0) => print_file(&outp),
                    Some(c) => { print_file(&outp); println!("X exit={c}"); }
                    None => { print_file(&outp); println!("X hang"); }
                }
            }
        }
        _ => panic!("bad mode {mode}"),
    }
}

pub fn run_file(path: &str, mode: &str) {
    // library panics are reported as outcomes, not as noise on stderr
    if std::env::var("HX_PANICS").is_err() { std::panic::set_hook(Box::new(|_| {})); }
    for case in parse_file(path) {
        let kt = kt_of(&case);
        dispatch!(kt, run_case_modes, &case, mode);
    }
}
