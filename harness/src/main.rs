// hx -- drives the real cassadilia library on case files and prints canonical result lines in
// the same format as the OCaml driver of the extracted Coq model (ocaml/driver.ml).
//
//   hx hashd                         blake3 oracle: hex line in, hex line out
//   hx run <casefile> [plain|crash-all|fault-all|fault:<k>]
//   hx codec / range / ...           see the other modules
mod canon;
mod cases;
mod codec;
mod conc;
mod indep;
mod misc;
mod plmode;

use std::io::{BufRead, Write};

#[global_allocator]
static ALLOC: codec::Counting = codec::Counting;

fn main() {
    let args: Vec<String> = std::env::args().collect();
    let cmd = args.get(1).map(String::as_str).unwrap_or("");
    match cmd {
        "hashd" => {
            let stdin = std::io::stdin();
            let stdout = std::io::stdout();
            let mut out = stdout.lock();
            for line in stdin.lock().lines() {
                let line = line.unwrap();
                let data = canon::unhex(line.trim());
                writeln!(out, "{}", canon::hex(blake3::hash(&data).as_bytes())).unwrap();
                out.flush().unwrap();
            }
        }
        "run" => {
            let file = args.get(2).expect("case file");
            let mode = args.get(3).map(String::as_str).unwrap_or("plain");
            cases::run_file(file, mode);
        }
        "codec" => codec::main(&args[2..]),
        "range" => misc::range_main(&args[2..]),
        "locks" => misc::locks_main(&args[2..]),
        "race" => misc::race_main(&args[2..]),
        "hold" => misc::hold_main(&args[2..]),
        "conc" => conc::main(&args[2..]),
        _ => {
            eprintln!("usage: hx hashd | run <cases> [mode] | codec .. | range .. | locks .. | conc ..");
            std::process::exit(2);
        }
    }
}
