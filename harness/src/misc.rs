// misc.rs -- K9: racing opens and handle life cycle against the OpenLock model.
//   hx race <file>      events: open <slot> | openstats <slot> | clone <slot> <new> | drop <slot> |
//                       dropcas <slot> | dropstats <slot> | spawn <proc> | kill <proc> |
//                       racethreads <n> | raceprocs <n> |
//                       openfd <slot>  (an open in its own thread, parked between opening LOCK and
//                                       locking it: scheduling point `open.flock`) | lock <slot> (let it go on)
//   after every event: `lock=present|absent` (is the name LOCK bound?)
use std::collections::HashMap;
use std::io::{BufRead, BufReader, Write};
use std::path::{Path, PathBuf};
use std::process::{Child, Command, Stdio};
use std::sync::{Arc, Barrier, Condvar, Mutex};

use cassadilia::{Cas, Config, LibError, OrphanStats};

use crate::canon::*;

type K = Vec<u8>;
fn cfg() -> Config { Config { num_ops_per_wal: std::num::NonZeroU64::new(3).unwrap(), ..Default::default() } }
fn dir_digest(root: &Path) -> String { dump_dir(root, "", None).join("|") }
fn outcome(r: &Result<(), LibError>) -> String {
    match r { Ok(()) => "opened".into(), Err(LibError::AlreadyOpened) => "already".into(), Err(e) => format!("err:{}", classify(&format!("{e:?}"))) }
}

// ---- two-step opens: threads named "pend-<slot>" park at the point `open.flock` until released ----
struct Gate { arrived: Vec<String>, go: Vec<String> }
static GATE: Mutex<Gate> = Mutex::new(Gate { arrived: Vec::new(), go: Vec::new() });
static GCV: Condvar = Condvar::new();
fn race_hook(name: &'static str) {
    if name != "open.flock" { return; }
    let me = match std::thread::current().name() { Some(n) if n.starts_with("pend-") => n[5..].to_string(), _ => return };
    let mut g = GATE.lock().unwrap();
    g.arrived.push(me.clone()); GCV.notify_all();
    while !g.go.contains(&me) { g = GCV.wait(g).unwrap(); }
}

pub fn locks_main(_args: &[String]) { eprintln!("lock sequences are checked inside `hx conc` (K7)"); }
pub fn range_main(_args: &[String]) { eprintln!("range cubes run as ordinary case files (K8)"); }

/// child mode: open, print the outcome, then hold the handle until stdin closes
pub fn hold_main(args: &[String]) {
    let root = PathBuf::from(&args[0]);
    let r = Cas::<K>::open(&root, cfg());
    println!("{}", match &r { Ok(_) => "opened".to_string(), Err(LibError::AlreadyOpened) => "already".to_string(), Err(e) => format!("err:{}", classify(&format!("{e:?}"))) });
    std::io::stdout().flush().unwrap();
    if let Err(e) = &r { if !matches!(e, LibError::AlreadyOpened) { eprintln!("{e:?}"); } }
    let mut s = String::new();
    let _ = std::io::stdin().read_line(&mut s);
    drop(r);
}

pub fn race_main(args: &[String]) {
    let text = std::fs::read_to_string(&args[0]).unwrap();
    let mut name = String::new();
    let mut evs: Vec<Vec<String>> = vec![];
    let mut cases: Vec<(String, Vec<Vec<String>>)> = vec![];
    for l in text.lines() {
        let t: Vec<String> = l.split_whitespace().map(String::from).collect();
        if t.is_empty() { continue; }
        match t[0].as_str() {
            "race" => { name = t[1].clone(); evs = vec![]; }
            "ev" => evs.push(t[1..].to_vec()),
            "end" => cases.push((name.clone(), std::mem::take(&mut evs))),
            _ => {}
        }
    }
    cassadilia::verif::set_point_hook(Box::new(race_hook));
    for (name, evs) in cases {
        println!("CASE {name}");
        { let mut g = GATE.lock().unwrap(); g.arrived.clear(); g.go.clear(); }
        let mut pendings: HashMap<String, std::thread::JoinHandle<Result<Cas<K>, LibError>>> = HashMap::new();
        let base = if Path::new("/dev/shm").is_dir() { PathBuf::from("/dev/shm") } else { std::env::temp_dir() };
        let td = tempfile::Builder::new().prefix("hxr").tempdir_in(std::env::var("HX_TMP").map(PathBuf::from).unwrap_or(base)).unwrap();
        let root = td.path().join("db");
        std::fs::create_dir_all(&root).unwrap();
        let log = td.path().join("shim.log");
        shim_set_root(&root); shim_set_log(&log, false);
        let mut tr = TraceReader::new(log.clone());
        let mut cas: HashMap<String, Cas<K>> = HashMap::new();
        let mut stats: HashMap<String, OrphanStats<K>> = HashMap::new();
        let mut procs: HashMap<String, Child> = HashMap::new();
        for (i, e) in evs.iter().enumerate() {
            let res: String = match e[0].as_str() {
                "open" | "openstats" | "openn" => {
                    let before = dir_digest(&root);
                    shim_arm(1, -1); let _ = tr.read_new();
                    let r = if e[0] == "openn" { let mut c2 = cfg(); c2.num_ops_per_wal = std::num::NonZeroU64::new(e[2].parse().unwrap()).unwrap(); Cas::<K>::open(&root, c2).map(|c| { cas.insert(e[1].clone(), c); }) }
                            else if e[0] == "open" { Cas::<K>::open(&root, cfg()).map(|c| { cas.insert(e[1].clone(), c); }) }
                            else { Cas::<K>::open_with_recover(&root, cfg()).map(|(c, s)| { cas.insert(e[1].clone(), c); if let Some(s) = s { stats.insert(e[1].clone(), s); } }) };
                    shim_arm(0, -1);
                    let (calls, _) = tr.read_new();
                    let o = outcome(&r);
                    if o == "already" { format!("already same={} calls=[{}]", before == dir_digest(&root), calls.join(";")) } else { o }
                }
                "openfd" => {
                    let (r, slot) = (root.clone(), e[1].clone());
                    let h = std::thread::Builder::new().name(format!("pend-{slot}")).spawn(move || Cas::<K>::open(&r, cfg())).unwrap();
                    pendings.insert(slot.clone(), h);
                    let mut g = GATE.lock().unwrap();
                    let start = std::time::Instant::now();
                    while !g.arrived.contains(&slot) && start.elapsed() < std::time::Duration::from_secs(10) { g = GCV.wait_timeout(g, std::time::Duration::from_millis(50)).unwrap().0; }
                    if g.arrived.contains(&slot) { "none".into() } else { "err:never-reached-the-lock".into() }
                }
                "lock" => {
                    match pendings.remove(&e[1]) {
                        None => "none".into(),
                        Some(h) => {
                            { let mut g = GATE.lock().unwrap(); g.go.push(e[1].clone()); GCV.notify_all(); }
                            let r = h.join().unwrap().map(|c| { cas.insert(e[1].clone(), c); });
                            outcome(&r)
                        }
                    }
                }
                "clone" => { let c = cas.get(&e[1]).cloned(); match c { Some(c) => { cas.insert(e[2].clone(), c); "none".into() } None => "none".into() } }
                "drop" | "dropcas" => { cas.remove(&e[1]); "none".into() }
                "dropstats" => { stats.remove(&e[1]); "none".into() }
                "spawn" => {
                    let mut ch = Command::new(std::env::current_exe().unwrap()).arg("hold").arg(&root).stdin(Stdio::piped()).stdout(Stdio::piped()).spawn().unwrap();
                    let mut line = String::new();
                    BufReader::new(ch.stdout.as_mut().unwrap()).read_line(&mut line).unwrap();
                    procs.insert(e[1].clone(), ch);
                    line.trim().to_string()
                }
                "kill" => { if let Some(mut ch) = procs.remove(&e[1]) { let _ = ch.kill(); let _ = ch.wait(); } "none".into() }
                "racethreads" => {
                    let n: usize = e[1].parse().unwrap();
                    let bar = Arc::new(Barrier::new(n));
                    let hs: Vec<_> = (0..n).map(|_| { let (b, r) = (bar.clone(), root.clone()); std::thread::spawn(move || { b.wait(); Cas::<K>::open(&r, cfg()) }) }).collect();
                    let rs: Vec<_> = hs.into_iter().map(|h| h.join().unwrap()).collect();
                    let w = rs.iter().filter(|r| r.is_ok()).count();
                    let l = rs.iter().filter(|r| matches!(r, Err(LibError::AlreadyOpened))).count();
                    let s = format!("winners={w} already={l} other={}", n - w - l);
                    drop(rs);
                    s
                }
                "raceprocs" => {
                    let n: usize = e[1].parse().unwrap();
                    let mut chs: Vec<Child> = (0..n).map(|_| Command::new(std::env::current_exe().unwrap()).arg("hold").arg(&root).stdin(Stdio::piped()).stdout(Stdio::piped()).spawn().unwrap()).collect();
                    let outs: Vec<String> = chs.iter_mut().map(|c| { let mut l = String::new(); BufReader::new(c.stdout.as_mut().unwrap()).read_line(&mut l).unwrap(); l.trim().to_string() }).collect();
                    let w = outs.iter().filter(|o| *o == "opened").count();
                    let l = outs.iter().filter(|o| *o == "already").count();
                    for mut c in chs { let _ = c.kill(); let _ = c.wait(); }
                    format!("winners={w} already={l} other={}", n - w - l)
                }
                o => panic!("bad race event {o}"),
            };
            println!("E {i} {} -> {res}", e.join(" "));
            println!("L {i} lock={}", if root.join("LOCK").exists() { "present" } else { "absent" });
        }
        // opens still parked at the end of the case are let go and joined
        { let mut g = GATE.lock().unwrap(); for s in pendings.keys() { g.go.push(s.clone()); } GCV.notify_all(); }
        for (_, h) in pendings { let _ = h.join(); }
        for (_, mut ch) in procs { let _ = ch.kill(); let _ = ch.wait(); }
    }
}
