pub fn range_main(_args: &[String]) { eprintln!("range: not built yet"); }
pub fn locks_main(_args: &[String]) { eprintln!("locks: not built yet"); }
