pub fn main(_args: &[String]) { eprintln!("codec: not built yet"); }
