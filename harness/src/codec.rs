// codec.rs -- K1: the library's codecs on the inputs of a codec case file, one result per line.
//   encop put <k> <h> <size> | encop rm <k,k,..>      decop <hex>
//   encidx <ver> <k=h:s;..>                            decidx <hex>
//   keydec <kt> <hex>          keycmp <kt> <a> <b>     path <h>      unpath <c1/c2/c3>
use std::alloc::{GlobalAlloc, Layout, System};
use std::collections::BTreeMap;
use std::num::NonZeroU64;
use std::sync::atomic::{AtomicUsize, Ordering};

use cassadilia::{BlobHash, KeyBytes, WalOpRaw};

use crate::canon::{hex, unhex};

pub struct Counting;
static CUR: AtomicUsize = AtomicUsize::new(0);
static PEAK: AtomicUsize = AtomicUsize::new(0);
unsafe impl GlobalAlloc for Counting {
    unsafe fn alloc(&self, l: Layout) -> *mut u8 {
        let c = CUR.fetch_add(l.size(), Ordering::Relaxed) + l.size();
        PEAK.fetch_max(c, Ordering::Relaxed);
        unsafe { System.alloc(l) }
    }
    unsafe fn dealloc(&self, p: *mut u8, l: Layout) {
        CUR.fetch_sub(l.size(), Ordering::Relaxed);
        unsafe { System.dealloc(p, l) }
    }
    unsafe fn realloc(&self, p: *mut u8, l: Layout, n: usize) -> *mut u8 {
        if n > l.size() {
            let c = CUR.fetch_add(n - l.size(), Ordering::Relaxed) + (n - l.size());
            PEAK.fetch_max(c, Ordering::Relaxed);
        } else { CUR.fetch_sub(l.size() - n, Ordering::Relaxed); }
        unsafe { System.realloc(p, l, n) }
    }
}
pub fn measure<T>(f: impl FnOnce() -> T) -> (T, usize) {
    let base = CUR.load(Ordering::Relaxed);
    PEAK.store(base, Ordering::Relaxed);
    let r = f();
    (r, PEAK.load(Ordering::Relaxed).saturating_sub(base))
}

fn h32(s: &str) -> BlobHash { let mut a = [0u8; 32]; a.copy_from_slice(&unhex(s)); BlobHash::from_bytes(a) }
fn derr(s: &str) -> &'static str {
    if s.starts_with("UnexpectedEof") { "Eof" } else if s.starts_with("InsufficientData") { "Insufficient" } else if s.starts_with("InvalidVariantTag") { "BadTag" } else { "Other" }
}
fn op_str(o: &WalOpRaw) -> String {
    match o {
        WalOpRaw::Put { key_bytes, hash, size } => format!("put {} {} {}", hex(key_bytes), hex(hash.as_bytes()), size),
        WalOpRaw::Remove { keys_bytes } => format!("rm {}", if keys_bytes.is_empty() { ".".to_string() } else { keys_bytes.iter().map(|k| hex(k)).collect::<Vec<_>>().join(",") }),
    }
}
fn keydec<K: KeyBytes>(b: &[u8]) -> bool { K::from_key_bytes(b).is_some() }
// typed snapshot round trip: the real encoder on a map ordered by K's Ord, the real decoder, compared as sets
fn rtidx<K: KeyBytes + Ord + Clone>(ver: u64, entries: &[(Vec<u8>, BlobHash, u64)]) -> String {
    let mut m: BTreeMap<K, (BlobHash, u64)> = BTreeMap::new();
    for (k, h, s) in entries { if let Some(key) = K::from_key_bytes(k) { m.insert(key, (*h, *s)); } }
    let bytes = cassadilia::verif::serialize_index(&m, NonZeroU64::new(ver));
    match cassadilia::verif::deserialize_index(&bytes) {
        Err(e) => format!("err {}", derr(&e)),
        Ok((es, _)) => {
            let mut got: Vec<(Vec<u8>, Vec<u8>, u64)> = es.iter().map(|(k, h, s)| (k.clone(), h.as_bytes().to_vec(), *s)).collect();
            let mut want: Vec<(Vec<u8>, Vec<u8>, u64)> = m.iter().map(|(k, (h, s))| (k.to_key_bytes_owned(), h.as_bytes().to_vec(), *s)).collect();
            got.sort(); want.sort();
            if got == want { format!("same {}", want.len()) } else { "differs".into() }
        }
    }
}
fn keycmp<K: KeyBytes + Ord>(a: &[u8], b: &[u8]) -> String {
    match (K::from_key_bytes(a), K::from_key_bytes(b)) {
        (Some(x), Some(y)) => format!("{:?}", x.cmp(&y)),
        _ => "invalid".into(),
    }
}
macro_rules! kt_dispatch {
    ($kt:expr, $f:ident, $($a:expr),*) => { match $kt {
        "bytes" => $f::<Vec<u8>>($($a),*), "string" => $f::<String>($($a),*), "arr4" => $f::<[u8; 4]>($($a),*),
        "u8" => $f::<u8>($($a),*), "u16" => $f::<u16>($($a),*), "u32" => $f::<u32>($($a),*), "u64" => $f::<u64>($($a),*), "u128" => $f::<u128>($($a),*),
        "i8" => $f::<i8>($($a),*), "i16" => $f::<i16>($($a),*), "i32" => $f::<i32>($($a),*), "i64" => $f::<i64>($($a),*), "i128" => $f::<i128>($($a),*),
        o => panic!("bad kt {o}") } };
}

pub fn main(args: &[String]) {
    std::panic::set_hook(Box::new(|_| {}));
    let text = std::fs::read_to_string(&args[0]).expect("codec case file");
    for (i, l) in text.lines().enumerate() {
        let t: Vec<&str> = l.split_whitespace().collect();
        if t.is_empty() { continue; }
        let r = std::panic::catch_unwind(|| -> (String, usize) {
            match t[0] {
                "encop" => {
                    let op = if t[1] == "put" { WalOpRaw::Put { key_bytes: unhex(t[2]), hash: h32(t[3]), size: t[4].parse().unwrap() } }
                             else { WalOpRaw::Remove { keys_bytes: if t[2] == "." { vec![] } else { t[2].split(',').map(unhex).collect() } } };
                    (hex(&cassadilia::verif::serialize_wal_op(&op)), 0)
                }
                "decop" => {
                    let b = unhex(t[1]);
                    let (r, peak) = measure(|| cassadilia::verif::deserialize_wal_op(&b));
                    (match r { Ok(o) => format!("ok {}", op_str(&o)), Err(e) => format!("err {}", derr(&e)) }, peak)
                }
                "encidx" => {
                    let mut m: BTreeMap<Vec<u8>, (BlobHash, u64)> = BTreeMap::new();
                    if t.len() > 2 && t[2] != "." { for e in t[2].split(';') { let (k, v) = e.split_once('=').unwrap(); let (h, s) = v.split_once(':').unwrap(); m.insert(unhex(k), (h32(h), s.parse().unwrap())); } }
                    (hex(&cassadilia::verif::serialize_index(&m, NonZeroU64::new(t[1].parse().unwrap()))), 0)
                }
                "decidx" => {
                    let b = unhex(t[1]);
                    let (r, peak) = measure(|| cassadilia::verif::deserialize_index(&b));
                    (match r {
                        Ok((es, v)) => format!("ok {} [{}]", v, es.iter().map(|(k, h, s)| format!("{}={}:{}", hex(k), hex(h.as_bytes()), s)).collect::<Vec<_>>().join(";")),
                        Err(e) => format!("err {}", derr(&e)) }, peak)
                }
                "rtidx" => {
                    let es: Vec<(Vec<u8>, BlobHash, u64)> = t[3].split(';').map(|e| { let (k, v) = e.split_once('=').unwrap(); let (h, s) = v.split_once(':').unwrap(); (unhex(k), h32(h), s.parse().unwrap()) }).collect();
                    let ver: u64 = t[2].parse().unwrap();
                    (kt_dispatch!(t[1], rtidx, ver, &es), 0)
                }
                "keydec" => { let b = unhex(t[2]); (if kt_dispatch!(t[1], keydec, &b) { "some".into() } else { "none".into() }, 0) }
                "keycmp" => { let (a, b) = (unhex(t[2]), unhex(t[3])); (kt_dispatch!(t[1], keycmp, &a, &b), 0) }
                "path" => (h32(t[1]).relative_path().to_str().unwrap().to_string(), 0),
                "unpath" => {
                    let p: std::path::PathBuf = t[1].split('/').map(|c| String::from_utf8(unhex(c)).unwrap()).collect();
                    (match BlobHash::from_relative_path(&p) { Ok(h) => format!("ok {}", hex(h.as_bytes())), Err(_) => "err".into() }, 0)
                }
                o => panic!("bad codec line {o}"),
            }
        });
        match r {
            Ok((s, peak)) => println!("K {i} {} -> {s} peak={peak}", t[0]),
            Err(_) => println!("K {i} {} -> PANIC peak=0", t[0]),
        }
    }
}
