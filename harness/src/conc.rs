pub fn main(_args: &[String]) { eprintln!("conc: not built yet"); }
