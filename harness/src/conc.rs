// conc.rs -- K6/K7: replays, on the real library, the schedule chosen by the concurrent Coq model.
//   hx conc <casefile> <model-output>
// Worker threads park at every `verif::point`; the scheduler releases one thread per step, in the
// order of the model's `S <i> t<tid> <from> -> <to> ...` lines, and prints its own lines in the
// same format (lock bits from verif::lock_state, cas listing, index and intents when unlocked).
use std::cell::Cell;
use std::collections::{HashMap, HashSet};
use std::num::NonZeroU64;
use std::path::{Path, PathBuf};
use std::sync::{Arc, Condvar, Mutex};
use std::time::{Duration, Instant};

use cassadilia::{Cas, Config, OrphanStats, SyncMode};

use crate::canon::*;

struct SState { parked: HashMap<usize, String>, go: HashSet<usize>, results: Vec<(usize, usize, String)>, shutdown: bool }
struct Sched { st: Mutex<SState>, cv: Condvar }
thread_local! { static TID: Cell<Option<usize>> = const { Cell::new(None) }; }
static CUR: Mutex<Option<Arc<Sched>>> = Mutex::new(None);

fn park(s: &Sched, t: usize, name: &str) {
    let mut g = s.st.lock().unwrap();
    if g.shutdown { return; }
    g.parked.insert(t, name.to_string());
    s.cv.notify_all();
    loop {
        if g.go.remove(&t) || g.shutdown { break; }
        g = s.cv.wait(g).unwrap();
    }
}
fn hook(name: &'static str) {
    if let Some(t) = TID.with(|c| c.get()) {
        let s = CUR.lock().unwrap().clone();
        if let Some(s) = s { park(&s, t, name); }
    }
}

type K = Vec<u8>;
fn bound(s: &str) -> std::ops::Bound<K> {
    if s == "U" { std::ops::Bound::Unbounded } else if let Some(h) = s.strip_prefix("I:") { std::ops::Bound::Included(parse_chunk(h)) } else { std::ops::Bound::Excluded(parse_chunk(&s[2..])) }
}
fn do_call(cas: &Cas<K>, stats: &Option<Arc<OrphanStats<K>>>, t: &[String]) -> String {
    let r = std::panic::catch_unwind(std::panic::AssertUnwindSafe(|| -> String {
        let e = |e: cassadilia::LibError| format!("err:{}", classify(&format!("{e:?}")));
        match t[0].as_str() {
            "put" | "abort" => {
                let content: Vec<u8> = parse_chunks(t.get(2).map(String::as_str).unwrap_or("")).concat();
                match cas.put(parse_chunk(&t[1])) {
                    Err(x) => e(x),
                    Ok(mut tx) => {
                        if tx.write(&content).is_err() { return "err:io.StageWrite".into(); }
                        if t[0] == "put" { match tx.finish() { Ok(()) => "ok".into(), Err(x) => e(x) } } else { drop(tx); "ok".into() }
                    }
                }
            }
            "remove" => match cas.remove(&parse_chunk(&t[1])) { Ok(b) => format!("ok:{b}"), Err(x) => e(x) },
            "remove_range" => match cas.remove_range((bound(&t[1]), bound(&t[2]))) { Ok(n) => format!("ok:{n}"), Err(x) => e(x) },
            "get" => match cas.get(&parse_chunk(&t[1])) { Ok(Some(b)) => format!("bytes:{}", show_content(&b)), Ok(None) => "none".into(), Err(x) => e(x) },
            // the other two entry points through the same lookup-then-open path
            "reader" => match cas.get_reader(&parse_chunk(&t[1])) {
                Ok(Some(mut r)) => { let mut b = vec![]; match std::io::Read::read_to_end(&mut r, &mut b) { Ok(_) => format!("bytes:{}", show_content(&b)), Err(x) => format!("err:io.{:?}", x.kind()) } }
                Ok(None) => "none".into(), Err(x) => e(x) },
            "iter" => { let g = cas.read_index_state(); let ks: Vec<String> = g.iter().map(|(k, _)| hex(k)).collect(); format!("keys:[{}]", ks.join(";")) }
            "range" => match cas.get_range(&parse_chunk(&t[1]), t.get(2).map(|x| x.parse().unwrap()).unwrap_or(0), t.get(3).map(|x| x.parse().unwrap()).unwrap_or(u64::MAX)) { Ok(Some(b)) => format!("bytes:{}", show_content(&b)), Ok(None) => "none".into(), Err(x) => e(x) },
            "size" => match cas.get_size(&parse_chunk(&t[1])) { Ok(Some(n)) => format!("size:{n}"), Ok(None) => "none".into(), Err(x) => e(x) },
            "checkpoint" => match cas.checkpoint() { Ok(()) => "ok".into(), Err(x) => e(x) },
            "delorphans" => match stats.as_ref().map(|s| s.delete_orphans()) {
                Some(Ok(r)) => format!("orphans:del={},skip={}", r.orphans_deleted, r.orphans_skipped),
                Some(Err(x)) => e(x), None => "orphans:del=0,skip=0".into() },
            o => panic!("bad conc call {o}"),
        }
    }));
    r.unwrap_or_else(|_| "err:panic".into())
}

// obstacles placed where no blob was stored: not part of the CAS listing
static HIDDEN: Mutex<Vec<String>> = Mutex::new(Vec::new());
fn cas_listing(root: &Path) -> String {
    // entries two levels below cas/ are blobs, whatever they are (an `undeletable` obstacle is a
    // directory sitting at a blob's path: it is listed under the blob's name)
    let mut v = vec![];
    let rd = |d: &Path| -> Vec<(String, std::path::PathBuf, bool)> {
        std::fs::read_dir(d).map(|r| r.flatten().map(|e| (e.file_name().to_str().unwrap().to_string(), e.path(), e.file_type().map(|t| t.is_dir()).unwrap_or(false))).collect()).unwrap_or_default()
    };
    for (a, pa, da) in rd(&root.join("cas")) {
        if !da { v.push(a); continue; }
        for (b, pb, db) in rd(&pa) {
            if !db { v.push(format!("{a}{b}")); continue; }
            for (c, _, _) in rd(&pb) { v.push(format!("{a}{b}{c}")); }
        }
    }
    let hidden = HIDDEN.lock().unwrap();
    v.retain(|x| !hidden.contains(x));
    v.sort();
    v.join(",")
}
fn state_line(cas: &Cas<K>, root: &Path) -> String {
    let bits = cassadilia::verif::lock_state(cas.as_arc());
    let (li, ls) = (bits & 1 != 0, bits & 2 != 0);
    let idx = if !ls {
        let g = cas.read_index_state();
        format!("[{}]", g.iter().map(|(k, it)| format!("{}={}:{}", hex(k), hex(it.blob_hash.as_bytes()), it.blob_size)).collect::<Vec<_>>().join(";"))
    } else { "-".into() };
    let intents = if !li {
        let mut v = cassadilia::verif::pending_intents(cas.as_arc());
        v.sort();
        format!("[{}]", v.iter().map(|(k, h)| format!("{}={}", hex(k), hex(h.as_bytes()))).collect::<Vec<_>>().join(";"))
    } else { "-".into() };
    // the per-hash ledger of in-flight intents (the model's g_byhash)
    let prot = if !li {
        let mut v = cassadilia::verif::protected_hashes(cas.as_arc());
        v.sort();
        format!("[{}]", v.iter().map(|(h, c)| format!("{}={}", hex(h.as_bytes()), c)).collect::<Vec<_>>().join(";"))
    } else { "-".into() };
    format!("I={} S={} cas=[{}] idx={} intents={} prot={}", if li { "*" } else { "-" }, if ls { "*" } else { "-" }, cas_listing(root), idx, intents, prot)
}

// a crash image of the running store: with every worker parked at a scheduling point (none inside a
// system call) the directory as it is now is what a kill of the process at this instant leaves behind.
// It is copied and opened with recovery; the recovered index and the number of missing blobs are printed
// (proofs/ConcDurable.v, C03_concurrent_kill_any_position: recovery from the log written so far yields
// the key map of this position, every key with its blob).
fn copy_tree(from: &Path, to: &Path) {
    std::fs::create_dir_all(to).unwrap();
    if let Ok(rd) = std::fs::read_dir(from) {
        for e in rd.flatten() {
            let (p, q) = (e.path(), to.join(e.file_name()));
            if e.file_type().map(|t| t.is_dir()).unwrap_or(false) { copy_tree(&p, &q); } else { let _ = std::fs::copy(&p, &q); }
        }
    }
}
fn crash_image(root: &Path, n: u64, tag: &str) -> String {
    let img = root.parent().unwrap().join(format!("img-{tag}"));
    copy_tree(root, &img);
    let conf = Config { sync_mode: SyncMode::Sync, num_ops_per_wal: NonZeroU64::new(n).unwrap(), pre_create_cas_dirs: false,
                        scan_orphans_on_startup: true, verify_blob_integrity: true, fail_on_integrity_errors: false };
    let r = std::panic::catch_unwind(std::panic::AssertUnwindSafe(|| match Cas::<K>::open_with_recover(&img, conf) {
        Ok((c, st)) => {
            let g = c.read_index_state();
            let idx = g.iter().map(|(k, it)| format!("{}={}:{}", hex(k), hex(it.blob_hash.as_bytes()), it.blob_size)).collect::<Vec<_>>().join(";");
            let (m, co) = st.map(|s| (s.missing_blobs.len(), s.corrupted_blobs.len())).unwrap_or((0, 0));
            format!("idx=[{idx}] missing={m} corrupted={co}")
        }
        Err(e) => format!("FAILED {}", classify(&format!("{e:?}"))),
    })).unwrap_or_else(|_| "FAILED panic".into());
    let _ = std::fs::remove_dir_all(&img);
    r
}

struct CCase { name: String, lines: Vec<String> }
fn parse_conc(path: &str) -> Vec<CCase> {
    let mut out = vec![]; let mut cur: Option<CCase> = None;
    for l in std::fs::read_to_string(path).unwrap().lines() {
        let l = l.trim();
        if let Some(n) = l.strip_prefix("conc ") { if let Some(c) = cur.take() { out.push(c); } cur = Some(CCase { name: n.to_string(), lines: vec![] }); }
        else if l == "end" { if let Some(c) = cur.take() { out.push(c); } }
        else if let Some(c) = cur.as_mut() { if !l.is_empty() { c.lines.push(l.to_string()); } }
    }
    if let Some(c) = cur.take() { out.push(c); }
    out
}

fn run_one(case: &CCase, sched_lines: &[String], free_seed: Option<u64>) -> Vec<String> {
    let mut out = vec![format!("CASE {}", case.name)];
    let base = if Path::new("/dev/shm").is_dir() { PathBuf::from("/dev/shm") } else { std::env::temp_dir() };
    let base = std::env::var("HX_TMP").map(PathBuf::from).unwrap_or(base);
    let td = tempfile::Builder::new().prefix("hxc").tempdir_in(base).unwrap();
    let root = td.path().join("db");
    std::fs::create_dir_all(root.join("cas")).unwrap();
    let mut n = 10000u64;
    let mut setup: Vec<Vec<String>> = vec![];
    let mut threads: Vec<(usize, Vec<Vec<String>>)> = vec![];
    for l in &case.lines {
        let t: Vec<String> = l.split_whitespace().map(String::from).collect();
        match t[0].as_str() {
            "cfg" => for kv in &t[1..] { if let Some(v) = kv.strip_prefix("n=") { n = v.parse().unwrap(); } },
            "orphan" => {
                let data = parse_chunk(&t[1]);
                let hx = hex(blake3::hash(&data).as_bytes());
                let p = root.join("cas").join(&hx[0..2]).join(&hx[2..4]);
                std::fs::create_dir_all(&p).unwrap();
                std::fs::write(p.join(&hx[4..]), &data).unwrap();
            }
            "setup" => setup.push(t[1..].to_vec()),
            "thread" => { let id: usize = t[1].parse().unwrap();
                if let Some(e) = threads.iter_mut().find(|(u, _)| *u == id) { e.1.push(t[2..].to_vec()); } else { threads.push((id, vec![t[2..].to_vec()])); } }
            _ => {}
        }
    }
    let conf = Config { sync_mode: SyncMode::Sync, num_ops_per_wal: NonZeroU64::new(n).unwrap(), pre_create_cas_dirs: false,
                        scan_orphans_on_startup: true, verify_blob_integrity: false, fail_on_integrity_errors: false };
    let (cas, stats) = match Cas::<K>::open_with_recover(&root, conf) { Ok(x) => x, Err(e) => { out.push(format!("X open failed {e:?}")); return out; } };
    let stats = stats.map(|mut s| { s.orphaned_blobs.sort(); Arc::new(s) });
    for c in &setup { do_call(&cas, &stats, c); }
    HIDDEN.lock().unwrap().clear();
    // injected obstacles (model-free cases only): `undeletable <content>` turns that content's blob
    // into a non-empty directory, so that its later deletion fails; `blockckpt` puts a directory
    // where checkpoints create their temporary snapshot file, so that every checkpoint fails
    for l in &case.lines {
        let t: Vec<&str> = l.split_whitespace().collect();
        if t.first() == Some(&"undeletable") {
            let data = parse_chunk(t[1]);
            let hx = hex(blake3::hash(&data).as_bytes());
            let p = root.join("cas").join(&hx[0..2]).join(&hx[2..4]).join(&hx[4..]);
            if std::fs::remove_file(&p).is_err() { HIDDEN.lock().unwrap().push(hx.clone()); }
            std::fs::create_dir_all(&p).unwrap();
            std::fs::write(p.join("f"), b"z").unwrap();
        }
        if t.first() == Some(&"blockckpt") { std::fs::create_dir_all(root.join("index.tmp").join("d")).unwrap(); }
    }
    let fsched: Vec<usize> = case.lines.iter().filter(|l| l.starts_with("fsched ")).flat_map(|l| l.split_whitespace().skip(1).map(|x| x.parse::<usize>().unwrap()).collect::<Vec<_>>()).collect();
    let sched = Arc::new(Sched { st: Mutex::new(SState { parked: HashMap::new(), go: HashSet::new(), results: vec![], shutdown: false }), cv: Condvar::new() });
    *CUR.lock().unwrap() = Some(sched.clone());
    let mut handles = vec![];
    for (id, calls) in threads.clone() {
        let (cas2, stats2, s2) = (cas.clone(), stats.clone(), sched.clone());
        handles.push(std::thread::spawn(move || {
            TID.with(|c| c.set(Some(id)));
            for (ci, call) in calls.iter().enumerate() {
                park(&s2, id, "start");
                let r = do_call(&cas2, &stats2, call);
                s2.st.lock().unwrap().results.push((id, ci, r));
            }
            park(&s2, id, "end");
        }));
    }
    let wait_parked = |t: usize, secs: u64| -> Option<String> {
        let start = Instant::now();
        let mut g = sched.st.lock().unwrap();
        loop {
            if let Some(n) = g.parked.get(&t) { return Some(n.clone()); }
            if start.elapsed() > Duration::from_secs(secs) { return None; }
            let (g2, _) = sched.cv.wait_timeout(g, Duration::from_millis(50)).unwrap();
            g = g2;
        }
    };
    // all workers reach their first park point
    for (id, _) in &threads { if wait_parked(*id, 10).is_none() { out.push(format!("X thread {id} never started")); } }
    out.push(format!("S init {}", state_line(&cas, &root)));
    let mut reported = 0usize;
    let obstacles0 = case.lines.iter().any(|l| l.starts_with("undeletable") || l.starts_with("blockckpt"));
    let mut images = 0usize;
    // in model-free exploration one round in three also takes crash images (they slow the exploration down)
    let crash_free = free_seed.map(|s| s % 3 == 1).unwrap_or(false);
    if let Some(seed) = free_seed {
        // model-free exploration: a random parked thread whose next lock (read off the point's name)
        // is free according to the real lock bits is released; a thread that does not come back
        // within 300 ms is blocked inside the library and is left alone
        let mut rng = seed.wrapping_mul(6364136223846793005).wrapping_add(1442695040888963407);
        let mut step = 0usize;
        let mut idle_rounds = 0;
        // seed mod 3 = 0: priority scheduling with one priority change point (finds interleavings in
        // which one thread sleeps through whole calls of another); 1: uniform choice; 2: sticky choice
        // (the thread that ran last goes on with probability 0.7: few pre-emptions at random places)
        let pct = seed % 3 == 0;
        let sticky = seed % 3 == 2;
        let mut last_tid: Option<usize> = None;
        let mut prio: HashMap<usize, u64> = HashMap::new();
        for (id, _) in &threads { rng = rng.wrapping_mul(6364136223846793005).wrapping_add(1442695040888963407); prio.insert(*id, 1000 + (rng >> 33) % 1000); }
        rng = rng.wrapping_mul(6364136223846793005).wrapping_add(1442695040888963407);
        let change_at = ((rng >> 33) % 24) as usize;
        while step < 400 && idle_rounds < 40 {
            let bits = cassadilia::verif::lock_state(cas.as_arc());
            let cands: Vec<(usize, String)> = {
                let g = sched.st.lock().unwrap();
                let mut v: Vec<(usize, String)> = g.parked.iter().filter(|(_, n)| n.as_str() != "end").map(|(t, n)| (*t, n.clone())).collect();
                v.sort();
                v.into_iter().filter(|(_, n)| {
                    if n.ends_with("lock_I") { bits & 1 == 0 } else if n == "read.lock_S" { bits & 4 == 0 } else if n.ends_with("lock_S") { bits & 2 == 0 } else if n.ends_with("lock_W") { bits & 8 == 0 } else { true }
                }).collect()
            };
            if cands.is_empty() {
                let g = sched.st.lock().unwrap();
                if g.parked.len() == threads.len() && g.parked.values().all(|n| n == "end") { break; }
                drop(g);
                idle_rounds += 1;
                std::thread::sleep(Duration::from_millis(25));
                continue;
            }
            rng = rng.wrapping_mul(6364136223846793005).wrapping_add(1442695040888963407);
            let forced = fsched.get(step).and_then(|t| cands.iter().find(|(c, _)| c == t).cloned());
            let keep = if sticky && (rng >> 20) % 10 < 7 { last_tid.and_then(|l| cands.iter().find(|(c, _)| *c == l).cloned()) } else { None };
            let (tid, from) = if let Some(f) = forced { f } else if let Some(k) = keep { k } else if step < fsched.len() || !pct { cands[((rng >> 33) as usize) % cands.len()].clone() } else {
                let best = cands.iter().max_by_key(|(t, _)| prio[t]).unwrap().clone();
                if step == change_at + fsched.len() { prio.insert(best.0, step as u64); }
                cands.iter().max_by_key(|(t, _)| prio[t]).unwrap().clone()
            };
            last_tid = Some(tid);
            { let mut g = sched.st.lock().unwrap(); g.parked.remove(&tid); g.go.insert(tid); sched.cv.notify_all(); }
            let start = Instant::now();
            let mut to = None;
            while start.elapsed() < Duration::from_millis(300) {
                if let Some(n) = sched.st.lock().unwrap().parked.get(&tid) { to = Some(n.clone()); break; }
                std::thread::sleep(Duration::from_micros(200));
            }
            match to {
                Some(to) => { out.push(format!("S {step} t{tid} {from} -> {to} {}", state_line(&cas, &root))); idle_rounds = 0;
                              let all_parked = sched.st.lock().unwrap().parked.len() == threads.len();
                              if !obstacles0 && images < 48 && crash_free && all_parked { images += 1; out.push(format!("K {step} {}", crash_image(&root, n, &step.to_string()))); } }
                None => { out.push(format!("S {step} t{tid} {from} -> BLOCKED {}", state_line(&cas, &root))); idle_rounds += 1; }
            }
            let g = sched.st.lock().unwrap();
            let mut news: Vec<&(usize, usize, String)> = g.results[reported..].iter().collect();
            news.sort();
            for (id, ci, r) in news { out.push(format!("F t{id} {ci} -> {r}")); }
            reported = g.results.len();
            step += 1;
        }
        let g = sched.st.lock().unwrap();
        let done = g.parked.len() == threads.len() && g.parked.values().all(|n| n == "end");
        // not an alarm by itself: the workers are released below and must then run to completion
        if !done { out.push(format!("N exploration stopped with calls in flight: parked {:?}", g.parked)); }
    }
    for l in sched_lines {
        let t: Vec<&str> = l.split_whitespace().collect();
        if t.len() < 6 || t[0] != "S" || !t[2].starts_with('t') { continue; }
        let step = t[1];
        let tid: usize = t[2][1..].parse().unwrap();
        let from = match wait_parked(tid, 4) { Some(f) => f, None => { out.push(format!("S {step} t{tid} DESYNC (thread not parked where the model expects it)")); break; } };
        {
            let mut g = sched.st.lock().unwrap();
            g.parked.remove(&tid);
            g.go.insert(tid);
            sched.cv.notify_all();
        }
        let to = match wait_parked(tid, 4) { Some(x) => x, None => { out.push(format!("S {step} t{tid} {from} -> HANG (the thread did not reach its next scheduling point within 4 s)")); break; } };
        out.push(format!("S {step} t{tid} {from} -> {to} {}", state_line(&cas, &root)));
        // only with EVERY worker parked (none running inside the library): otherwise the copy would not be an instant
        let all_parked = sched.st.lock().unwrap().parked.len() == threads.len();
        if !obstacles0 && images < 48 && all_parked { images += 1; out.push(format!("K {step} {}", crash_image(&root, n, step))); }
        let g = sched.st.lock().unwrap();
        let mut news: Vec<&(usize, usize, String)> = g.results[reported..].iter().collect();
        news.sort();
        for (id, ci, r) in news { out.push(format!("F t{id} {ci} -> {r}")); }
        reported = g.results.len();
    }
    // let every worker run to completion
    { let mut g = sched.st.lock().unwrap(); g.shutdown = true; sched.cv.notify_all(); }
    let deadline = Instant::now() + Duration::from_secs(10);
    for h in handles { while !h.is_finished() && Instant::now() < deadline { std::thread::sleep(Duration::from_millis(5)); } if !h.is_finished() { out.push("X worker still blocked after the schedule ended".into()); } }
    *CUR.lock().unwrap() = None;
    // restart after concurrent use (proofs/ConcDurable.v: the log written by any interleaving replays to
    // the index the threads left in memory): with every worker finished and no injected obstacle, the
    // handle is dropped and the directory opened again; index and statistics before and after are printed
    let all_done = !out.iter().any(|l| l.starts_with("X "));
    let obstacles = case.lines.iter().any(|l| l.starts_with("undeletable") || l.starts_with("blockckpt"));
    if all_done && !obstacles {
        let snap = |c: &Cas<K>| -> String {
            let g = c.read_index_state();
            let st = g.stats();
            let mut kb: Vec<String> = g.known_blobs().map(|(h, n)| format!("{}x{}", hex(h.as_bytes()), n)).collect();
            kb.sort();
            format!("idx=[{}] unique={} bytes={} refs=[{}]", g.iter().map(|(k, it)| format!("{}={}:{}", hex(k), hex(it.blob_hash.as_bytes()), it.blob_size)).collect::<Vec<_>>().join(";"),
                    st.cas.unique_blobs, st.cas.total_bytes, kb.join(";"))
        };
        let before = snap(&cas);
        drop(stats);
        drop(cas);
        match Cas::<K>::open_with_recover(&root, Config { sync_mode: SyncMode::Sync, num_ops_per_wal: NonZeroU64::new(n).unwrap(), pre_create_cas_dirs: false,
                        scan_orphans_on_startup: true, verify_blob_integrity: false, fail_on_integrity_errors: false }) {
            Ok((cas2, st2)) => {
                out.push(format!("R before {before}"));
                out.push(format!("R reopen {}", snap(&cas2)));
                if let Some(s) = st2 { out.push(format!("R scan missing={} total={}", s.missing_blobs.len(), s.total_blobs)); }
            }
            Err(e) => { out.push(format!("R before {before}")); out.push(format!("R reopen FAILED {}", classify(&format!("{e:?}")))); }
        }
    }
    out
}

pub fn main(args: &[String]) {
    std::panic::set_hook(Box::new(|_| {}));
    cassadilia::verif::set_point_hook(Box::new(hook));
    let cases = parse_conc(&args[0]);
    let free_seed: Option<u64> = args.get(1).and_then(|a| a.strip_prefix("free:")).map(|x| x.parse().unwrap());
    let model = if free_seed.is_some() { String::new() } else { std::fs::read_to_string(&args[1]).unwrap() };
    let mut by: HashMap<String, Vec<String>> = HashMap::new();
    let mut cur = String::new();
    for l in model.lines() {
        if let Some(n) = l.strip_prefix("CASE ") { cur = n.to_string(); }
        else { by.entry(cur.clone()).or_default().push(l.to_string()); }
    }
    for c in &cases {
        let sl = by.get(&c.name).cloned().unwrap_or_default();
        // each case in its own process: a hung worker must not poison the next case
        let outp = std::env::temp_dir().join(format!("hxc-{}-{}", std::process::id(), c.name));
        let r = crate::cases::in_child(120, || { let lines = run_one(c, &sl, free_seed); std::fs::write(&outp, lines.join("\n") + "\n").unwrap(); 0 });
        match r { Some(_) => { if let Ok(s) = std::fs::read_to_string(&outp) { print!("{s}"); } } None => println!("CASE {}\nX hang", c.name) }
        let _ = std::fs::remove_file(&outp);
    }
}
