// plmode.rs -- power-loss images built from the REAL recorded call trace (shim log with data):
// for every cut point and every choice of files losing their unsynced bytes, the directory is
// materialised and the real library recovers it.
use std::collections::{BTreeMap, BTreeSet};
use std::path::Path;

use crate::canon::unhex;

#[derive(Clone, Default)]
pub struct SimFile { pub data: Vec<u8>, pub synced: usize }
#[derive(Clone, Default)]
pub struct SimFs { pub files: BTreeMap<String, SimFile>, pub dirs: BTreeSet<String> }

#[derive(Clone, Debug)]
pub enum Ev { Mkdir(String), Open(String, String), Write(String, Vec<u8>), Sync(String), Rename(String, String), Unlink(String) }

/// effective events of the arming thread, grouped: each group starts with a counted call and
/// carries the uncounted continuation writes that follow it
pub fn parse_log(raw: &str) -> Vec<Vec<Ev>> {
    let mut groups: Vec<Vec<Ev>> = vec![];
    let mut pending_data: Option<(String, Vec<u8>)> = None;
    for line in raw.lines() {
        let t: Vec<&str> = line.split(' ').collect();
        if t.len() < 3 { continue; }
        if t[0] == "D" { pending_data = Some((t[1..t.len() - 1].join(" "), unhex(t[t.len() - 1]))); continue; }
        if t[0] != "C" && t[0] != "U" { continue; }
        if t[1] != "1" { pending_data = None; continue; }
        let ok = line.ends_with(" 0") && !line.contains("= -1");
        let ev = match t[2] {
            "mkdir" if ok => Some(Ev::Mkdir(t[3].trim_end_matches('/').to_string())),
            "open" if ok && t[0] == "C" => Some(Ev::Open(t[3].to_string(), t[4].to_string())),
            "write" => { let d = pending_data.take(); if line.contains("= -1") || t[3].ends_with("(deleted)") { None } else { d.map(|(p, d)| Ev::Write(p, d)) } }
            "sync" if ok && t[0] == "C" => Some(Ev::Sync(t[3].to_string())),
            "rename" if ok => Some(Ev::Rename(t[3].to_string(), t[4].to_string())),
            "unlink" if ok && t[0] == "C" => Some(Ev::Unlink(t[3].to_string())),
            _ => None,
        };
        if let Some(ev) = ev {
            if t[0] == "C" { groups.push(vec![ev]); }
            else if matches!(ev, Ev::Write(..)) { if let Some(g) = groups.last_mut() { g.push(ev); } }
        }
    }
    groups
}

impl SimFs {
    pub fn apply(&mut self, e: &Ev) {
        match e {
            Ev::Mkdir(d) => { self.dirs.insert(d.clone()); }
            Ev::Open(p, flags) => {
                if flags.contains('T') || !self.files.contains_key(p) { self.files.insert(p.clone(), SimFile::default()); }
            }
            Ev::Write(p, d) => { if let Some(f) = self.files.get_mut(p) { f.data.extend_from_slice(d); } }
            Ev::Sync(p) => { if let Some(f) = self.files.get_mut(p) { f.synced = f.data.len(); } }
            Ev::Rename(a, b) => { if let Some(f) = self.files.remove(a) { if b != "<outside>" { self.files.insert(b.clone(), f); } } }
            Ev::Unlink(p) => { self.files.remove(p); }
        }
    }
    pub fn unsynced(&self) -> Vec<String> {
        self.files.iter().filter(|(_, f)| f.synced < f.data.len()).map(|(p, _)| p.clone()).collect()
    }
    pub fn materialise(&self, root: &Path, victims: &[String]) {
        std::fs::create_dir_all(root).unwrap();
        for d in &self.dirs { std::fs::create_dir_all(root.join(d)).unwrap(); }
        for (p, f) in &self.files {
            let path = root.join(p);
            if let Some(par) = path.parent() { std::fs::create_dir_all(par).unwrap(); }
            let data = if victims.contains(p) { &f.data[..f.synced] } else { &f.data[..] };
            std::fs::write(path, data).unwrap();
        }
    }
}
