// canon.rs -- canonical text forms shared with ocaml/driver.ml, the shim control interface,
// shim-log canonicalisation, directory dumps, error classification.
use std::collections::HashMap;
use std::path::{Path, PathBuf};

pub fn hex(b: &[u8]) -> String {
    if b.is_empty() { return "-".to_string(); }
    let mut s = String::with_capacity(b.len() * 2);
    for x in b { s.push_str(&format!("{x:02x}")); }
    s
}
pub fn unhex(s: &str) -> Vec<u8> {
    if s == "-" || s.is_empty() { return vec![]; }
    let b = s.as_bytes();
    let v = |c: u8| -> u8 { match c { b'0'..=b'9' => c - 48, b'a'..=b'f' => c - 87, b'A'..=b'F' => c - 55, _ => panic!("bad hex {s}") } };
    (0..b.len() / 2).map(|i| 16 * v(b[2 * i]) + v(b[2 * i + 1])).collect()
}
pub fn digest(d: &[u8]) -> String {
    let (mut a, mut b) = (1u32, 0u32);
    for x in d { a = (a + *x as u32) % 65521; b = (b + a) % 65521; }
    format!("{}:{:04x}{:04x}", d.len(), b, a)
}
pub fn show_content(d: &[u8]) -> String {
    if d.len() <= 48 { format!("{}:{}", digest(d), hex(d)) } else { digest(d) }
}
pub fn gen_bytes(seed: usize, len: usize) -> Vec<u8> { gen_bytes_off(seed, len, 0) }
pub fn gen_bytes_off(seed: usize, len: usize, off: usize) -> Vec<u8> {
    (off..off + len).map(|i| ((seed * 131 + i * 31 + (i / 251) * 17) & 255) as u8).collect()
}
pub fn parse_chunk(c: &str) -> Vec<u8> {
    if let Some(rest) = c.strip_prefix("G:") {
        let mut it = rest.split(':');
        let s: usize = it.next().unwrap().parse().unwrap();
        let l: usize = it.next().unwrap().parse().unwrap();
        let o: usize = it.next().map_or(0, |x| x.parse().unwrap());
        gen_bytes_off(s, l, o)
    } else { unhex(c) }
}
pub fn parse_chunks(s: &str) -> Vec<Vec<u8>> {
    if s.is_empty() || s == "." { return vec![]; }
    s.split(',').map(parse_chunk).collect()
}
pub fn printable(s: &[u8]) -> String {
    let mut o = String::new();
    for &c in s {
        if c.is_ascii_alphanumeric() || c == b'.' || c == b'_' || c == b'-' { o.push(c as char); } else { o.push_str(&format!("%{c:02x}")); }
    }
    o
}

// ---------- shim control ----------
type ArmFn = unsafe extern "C" fn(i32, i64);
type SetStrFn = unsafe extern "C" fn(*const libc::c_char);
type SetLogFn = unsafe extern "C" fn(*const libc::c_char, i32);
type CountFn = unsafe extern "C" fn() -> i64;
fn sym(name: &str) -> *mut libc::c_void {
    let c = std::ffi::CString::new(name).unwrap();
    unsafe { libc::dlsym(libc::RTLD_DEFAULT, c.as_ptr()) }
}
pub fn shim_present() -> bool { !sym("fsshim_arm").is_null() }
pub fn shim_set_root(p: &Path) {
    let s = sym("fsshim_set_root");
    if s.is_null() { return; }
    let c = std::ffi::CString::new(p.to_str().unwrap()).unwrap();
    unsafe { std::mem::transmute::<_, SetStrFn>(s)(c.as_ptr()) }
}
pub fn shim_set_log(p: &Path, with_data: bool) {
    let s = sym("fsshim_set_log");
    if s.is_null() { return; }
    let c = std::ffi::CString::new(p.to_str().unwrap()).unwrap();
    unsafe { std::mem::transmute::<_, SetLogFn>(s)(c.as_ptr(), with_data as i32) }
}
/// mode: 0 off, 1 trace, 2 kill-at-k, 3 fail-at-k
pub fn shim_arm(mode: i32, k: i64) {
    let s = sym("fsshim_arm");
    if s.is_null() { return; }
    unsafe { std::mem::transmute::<_, ArmFn>(s)(mode, k) }
}
pub fn shim_count() -> i64 {
    let s = sym("fsshim_count");
    if s.is_null() { return -1; }
    unsafe { std::mem::transmute::<_, CountFn>(s)() }
}

// ---------- shim log -> canonical trace ----------
pub struct TraceReader {
    path: PathBuf,
    offset: u64,
    pub staging_names: HashMap<String, u64>,
    pub next_staging: u64,
}
impl TraceReader {
    pub fn new(path: PathBuf) -> Self { Self { path, offset: 0, staging_names: HashMap::new(), next_staging: 0 } }
    pub fn path_ref(&self) -> &Path { &self.path }
    fn canon_path(&mut self, p: &str, creating: bool) -> String {
        let p = p.strip_suffix(" (deleted)").unwrap_or(p);
        if let Some(name) = p.strip_prefix("staging/") {
            if let Some(i) = self.staging_names.get(name) { return format!("staging/#{i}"); }
            if creating {
                let i = self.next_staging;
                self.next_staging += 1;
                self.staging_names.insert(name.to_string(), i);
                return format!("staging/#{i}");
            }
            return format!("staging/?{name}");
        }
        if let Some(rest) = p.strip_prefix("cas/") {
            return format!("cas/{}", rest.split('/').map(|c| printable(c.as_bytes())).collect::<Vec<_>>().join("/"));
        }
        p.to_string()
    }
    /// new canonical trace lines since the last call (raw lines are returned as well)
    pub fn read_new(&mut self) -> (Vec<String>, Vec<String>) {
        use std::io::{Read, Seek, SeekFrom};
        let mut out = vec![];
        let mut raw = vec![];
        let Ok(mut f) = std::fs::File::open(&self.path) else { return (out, raw) };
        f.seek(SeekFrom::Start(self.offset)).unwrap();
        let mut s = String::new();
        f.read_to_string(&mut s).unwrap();
        self.offset += s.len() as u64;
        for line in s.lines() {
            raw.push(line.to_string());
            let t: Vec<&str> = line.split(' ').collect();
            if t.len() < 4 { continue; }
            let tag = t[0];
            if tag != "C" && tag != "F" { continue; }
            let name = t[2];
            // the path may contain spaces only as " (deleted)", which is never counted
            let body = match name {
                "open" => {
                    let flags = t[4];
                    let kind = if flags.contains('X') { "createx" } else if flags.contains('A') { "opena" } else { "create" };
                    let p = if tag == "F" && flags.contains('X') && t[3].starts_with("staging/") { format!("staging/#{}", self.next_staging) }
                            else { self.canon_path(t[3], flags.contains('X')) };
                    format!("{kind} {p}")
                }
                "write" => {
                    let p = self.canon_path(t[3], false);
                    if p.starts_with("db_settings.json") { format!("append {p} settings") }
                    else if p.starts_with("staging/") { format!("append {p} data") }
                    else { format!("append {p} {}:{}", t[4], t[5]) }
                }
                "sync" => format!("sync {}", self.canon_path(t[3], false)),
                "rename" => {
                    let a = self.canon_path(t[3], false);
                    if t[4] == "<outside>" { format!("unlink {a}") } else { format!("rename {a} {}", self.canon_path(t[4], false)) }
                }
                "unlink" => format!("unlink {}", self.canon_path(t[3], false)),
                "mkdir" => format!("mkdir {}", t[3].trim_end_matches('/').split('/').map(|c| printable(c.as_bytes())).collect::<Vec<_>>().join("/")),
                _ => continue,
            };
            out.push(if tag == "F" { format!("FAULT {body}") } else { body });
        }
        (out, raw)
    }
}

// ---------- directory dump ----------
fn walk(root: &Path, dir: &Path, out: &mut Vec<(String, PathBuf)>) {
    let Ok(rd) = std::fs::read_dir(dir) else { return };
    for e in rd.flatten() {
        let p = e.path();
        let ft = e.file_type().unwrap();
        if ft.is_dir() { walk(root, &p, out); } else {
            let rel = p.strip_prefix(root).unwrap().to_str().unwrap().to_string();
            out.push((rel, p));
        }
    }
}
pub fn settings_canon(data: &[u8]) -> String {
    if let Ok(v) = serde_json::from_slice::<serde_json::Value>(data) {
        if let (Some(ver), Some(pre), Some(n)) = (v.get("version").and_then(|x| x.as_u64()), v.get("dir_tree_is_pre_created").and_then(|x| x.as_bool()), v.get("num_ops_per_wal").and_then(|x| x.as_u64())) {
            return format!("settings:v={ver},pre={pre},n={n}");
        }
    }
    format!("settings:raw:{}", hex(data))
}
/// one line per file, sorted; staging names are replaced by their creation index when known
pub fn dump_dir(root: &Path, prefix: &str, tr: Option<&TraceReader>) -> Vec<String> {
    let mut files = vec![];
    walk(root, root, &mut files);
    let mut lines = vec![];
    for (rel, p) in files {
        let data = std::fs::read(&p).unwrap_or_default();
        let (name, body) = if rel.starts_with("db_settings.json") { (rel.clone(), settings_canon(&data)) }
        else if let Some(n) = rel.strip_prefix("staging/") {
            let nm = match tr.and_then(|t| t.staging_names.get(n)) { Some(i) => format!("staging/#{i}"), None => format!("staging/#{}", n.trim_start_matches("planted")) };
            (nm, "staged".to_string())
        } else if let Some(rest) = rel.strip_prefix("cas/") {
            // the harness re-hashes every CAS file itself: does the content match the name?
            let comps: Vec<&str> = rest.split('/').collect();
            let joined: String = if comps.len() >= 3 { comps[comps.len() - 3..].concat() } else { String::new() };
            let ok = joined.len() == 64 && joined.bytes().all(|c| c.is_ascii_hexdigit()) && joined.to_ascii_lowercase() == hex(blake3::hash(&data).as_bytes());
            (format!("cas/{}", comps.iter().map(|c| printable(c.as_bytes())).collect::<Vec<_>>().join("/")), format!("{} hash={}", show_content(&data), if ok { "ok" } else { "BAD" }))
        } else { (rel.clone(), show_content(&data)) };
        lines.push(format!("{prefix}F {name} {body}"));
        if rel.ends_with("_index.wal") { lines.push(format!("{prefix}L {rel} {}", crate::indep::wal_summary(&data))); }
        if rel == "index" { lines.push(format!("{prefix}S index {}", crate::indep::snapshot_summary(&data))); }
    }
    lines.sort();
    lines
}

// ---------- error classes (same names as serr_str in driver.ml) ----------
pub fn classify(dbg: &str) -> String {
    let has = |s: &str| dbg.contains(s);
    let c = if dbg.starts_with("Io {") {
        if has("operation: CreateStagingDir") { "io.CreateStagingDir" }
        else if has("operation: CreateCasDir") { "io.CreateCasDir" }
        else if has("operation: CreateLockFile") { "io.CreateLockFile" }
        else if has("operation: CreateStagingFile") { "io.CreateStagingFile" }
        else if has("operation: WriteStagingFile") || has("operation: CommitFlushWriter") { "io.StageWrite" }
        else if has("operation: RemoveFile") { "io.RemoveFile" }
        else { "io.Other" }
    } else if dbg.starts_with("AlreadyOpened") { "AlreadyOpened" }
    else if dbg.starts_with("Cas(FileOperation { operation: CreateSubdir") { "cas.CreateSubdir" }
    else if dbg.starts_with("Cas(FileOperation { operation: MoveStaged") { "cas.MoveStaged" }
    else if dbg.starts_with("Cas(InvalidRangeStartEnd") { "cas.InvalidRange" }
    else if dbg.starts_with("Cas(") { "cas.Other" }
    else if dbg.starts_with("BlobDataMissing") { "BlobDataMissing" }
    else if dbg.starts_with("CommitFdatasyncIo") { "CommitFdatasyncIo" }
    else if dbg.starts_with("Index(PersistFailed(EmptyIndexFile") { "index.EmptyIndexFile" }
    else if dbg.starts_with("Index(PersistFailed(DecodeIndex") { "index.DecodeIndex" }
    else if dbg.starts_with("Index(PersistFailed(DecodeKey") { "index.DecodeKey" }
    else if dbg.starts_with("Index(PersistFailed(AtomicWrite") { "index.AtomicWrite" }
    else if dbg.starts_with("Index(Wal(ReplayIo { step: ReadOpData") { "replay.ReadOpData" }
    else if dbg.starts_with("Index(Wal(ReplayChecksumMismatch") { "replay.Checksum" }
    else if dbg.starts_with("Index(Wal(ReplayDeserializeWalOpRaw") { "replay.Deserialize" }
    else if dbg.starts_with("Index(Wal(ReplayConvertWalOp") { "replay.Convert" }
    else if dbg.starts_with("Index(Wal(WriteWalEntryDataIO") { "wal.WriteEntry" }
    else if dbg.starts_with("Index(Wal(") || dbg.starts_with("Index(ApplyWalOpWriteEntry") || dbg.starts_with("Index(InitCreateWalManager") { "wal.Io" }
    else if dbg.starts_with("Index(BlobDeletion") { "index.BlobDeletion" }
    else if dbg.starts_with("Index(") { "index.Other" }
    else if dbg.starts_with("Settings(UnsupportedVersion") { "settings.UnsupportedVersion" }
    else if dbg.starts_with("Settings(ValidationFailed") { "settings.ValidationFailed" }
    else if dbg.starts_with("Settings(AtomicWrite") { "settings.AtomicWrite" }
    else if dbg.starts_with("Settings(ParseFailed") { "settings.ParseFailed" }
    else if dbg.starts_with("Settings(") { "settings.Other" }
    else if dbg.starts_with("IntegrityCheckFailed") { "IntegrityCheckFailed" }
    else { "other" };
    c.to_string()
}
