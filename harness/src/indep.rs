// indep.rs -- an independent reader of the documented on-disk formats (written from the format
// comments in src/serialization.rs and src/wal/storage.rs, sharing no code with the library):
//   record   [u64 version][32 blake3(payload)][u32 len][payload], sentinel = 44 zero bytes
//   op       0:[u32 klen][key][32 hash][u64 size] | 1:[u32 n]{[u32 klen][key]}*
//   snapshot [u64 ver][u32 n]{[u32 klen][key][32 hash][u64 size]}*
use crate::canon::hex;

fn u32le(b: &[u8]) -> u32 { u32::from_le_bytes(b[..4].try_into().unwrap()) }
fn u64le(b: &[u8]) -> u64 { u64::from_le_bytes(b[..8].try_into().unwrap()) }

pub fn op_summary(p: &[u8]) -> String {
    if p.is_empty() { return "bad".into(); }
    match p[0] {
        0 => {
            if p.len() < 5 { return "bad".into(); }
            let kl = u32le(&p[1..]) as usize;
            if p.len() < 5 + kl + 40 { return "bad".into(); }
            let k = &p[5..5 + kl];
            let h = &p[5 + kl..5 + kl + 32];
            let s = u64le(&p[5 + kl + 32..]);
            format!("put:{}:{}:{}", hex(k), hex(h), s)
        }
        1 => {
            if p.len() < 5 { return "bad".into(); }
            let n = u32le(&p[1..]) as usize;
            let mut off = 5;
            let mut ks = vec![];
            for _ in 0..n {
                if p.len() < off + 4 { return "bad".into(); }
                let kl = u32le(&p[off..]) as usize;
                off += 4;
                if p.len() < off + kl { return "bad".into(); }
                ks.push(hex(&p[off..off + kl]));
                off += kl;
            }
            format!("rm:{}", ks.join("|"))
        }
        _ => "bad".into(),
    }
}

/// `[v:op;v:op] tail=<clean|sentinel|partial-header:n|partial-payload|badsum|zero-len|marker+n>`
pub fn wal_summary(d: &[u8]) -> String {
    let mut off = 0usize;
    let mut recs = vec![];
    let tail;
    loop {
        let rem = d.len() - off;
        if rem < 44 { tail = if rem == 0 { "clean".to_string() } else { format!("partial-header:{rem}") }; break; }
        let ver = u64le(&d[off..]);
        let sum = &d[off + 8..off + 40];
        let len = u32le(&d[off + 40..]) as usize;
        if ver == 0 {
            tail = if rem == 44 && d[off..].iter().all(|b| *b == 0) { "sentinel".to_string() } else { format!("marker+{}", rem - 44) };
            break;
        }
        if len == 0 { tail = "zero-len".to_string(); break; }
        if rem - 44 < len { tail = "partial-payload".to_string(); break; }
        let payload = &d[off + 44..off + 44 + len];
        if blake3::hash(payload).as_bytes() != sum { tail = "badsum".to_string(); break; }
        recs.push(format!("{}:{}", ver, op_summary(payload)));
        off += 44 + len;
    }
    format!("[{}] tail={}", recs.join(";"), tail)
}

pub fn snapshot_summary(d: &[u8]) -> String {
    if d.len() < 12 { return "bad".into(); }
    let ver = u64le(d);
    let n = u32le(&d[8..]) as usize;
    let mut off = 12;
    let mut es = vec![];
    for _ in 0..n {
        if d.len() < off + 4 { return "bad".into(); }
        let kl = u32le(&d[off..]) as usize;
        off += 4;
        if d.len() < off + kl + 40 { return "bad".into(); }
        es.push(format!("{}={}:{}", hex(&d[off..off + kl]), hex(&d[off + kl..off + kl + 32]), u64le(&d[off + kl + 32..])));
        off += kl + 40;
    }
    format!("ver={} [{}]{}", ver, es.join(";"), if off == d.len() { "" } else { " trailing" })
}

/// (offset, version, payload length) of every complete record with a valid checksum, in file order
pub fn record_offsets(d: &[u8]) -> Vec<(usize, u64, usize)> {
    let mut off = 0usize;
    let mut out = vec![];
    loop {
        let rem = d.len() - off;
        if rem < 44 { break; }
        let ver = u64le(&d[off..]);
        let len = u32le(&d[off + 40..]) as usize;
        if ver == 0 || len == 0 || rem - 44 < len { break; }
        if blake3::hash(&d[off + 44..off + 44 + len]).as_bytes() != &d[off + 8..off + 40] { break; }
        out.push((off, ver, len));
        off += 44 + len;
    }
    out
}
pub fn snapshot_version(d: &[u8]) -> u64 { if d.len() >= 8 { u64le(d) } else { 0 } }
